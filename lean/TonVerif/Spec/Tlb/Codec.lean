/-
TL-B as lawful codecs (DESIGN §6 C16).

A `Codec` is a spec *encoder* (value → bits + cell references appended to the cell under
construction), a spec *decoder* (slice → value + remaining slice) and a value generator used only by
the driver (no theorem mentions it).  Every TL-B construct of `block.tlb` is a combinator; a TL-B type
is a TERM built from the combinators (Spec/Tlb/Block.lean), and the round-trip + exact-consumption law

    enc v = some f  →  ∀ k,  dec (f ++ k) = some (v, k)                        (`Lawful`)

is proved once per combinator (Proofs/Codec.lean) and composed by type-class resolution.
`f ++ k` = the encoded bits followed by ANY continuation bits, the encoded refs followed by ANY
continuation refs: the decoder returns every field with the encoded value and consumes exactly the
encoded bits and references.

Core Lean only (no Mathlib): the driver links this file.
-/
import TonVerif.Basic

namespace TonVerif.Tlb
open TonVerif

/-- a cell as the TL-B layer sees it: exotic flag, data bits, references (a tree; sharing is unobservable) -/
inductive Cell where
  | mk (exotic : Bool) (bits : Bits) (refs : List Cell)
  deriving Inhabited

def Cell.exotic : Cell → Bool | .mk e _ _ => e
def Cell.bits : Cell → Bits | .mk _ b _ => b
def Cell.refs : Cell → List Cell | .mk _ _ r => r

/-- bits + refs: what an encoder appends to a builder, and what a slice still holds -/
structure Frag where
  bits : Bits
  refs : List Cell

def Frag.nil : Frag := ⟨[], []⟩
def Frag.ofBits (b : Bits) : Frag := ⟨b, []⟩
instance : Append Frag := ⟨fun a b => ⟨a.bits ++ b.bits, a.refs ++ b.refs⟩⟩

/-- universal value type -/
inductive Val where
  | unit                                   -- no content / absent (`None`)
  | int (i : Int)
  | bool (b : Bool)
  | bits (b : Bits)                        -- bit strings (`bits256`, `n * Bit`)
  | cell (c : Cell)                        -- `^Cell`, `Any`
  | con (name : String) (v : Val)          -- constructor alternative
  | record (fs : List (String × Val))      -- named fields, in schema order
  deriving Inhabited

/-- fields decoded so far, most recent first -/
abbrev Env := List (String × Val)

def Env.get (e : Env) (n : String) : Val := (e.lookup n).getD .unit
def Env.nat (e : Env) (n : String) : Nat :=
  match e.lookup n with
  | some (.int i) => i.toNat
  | some (.bool true) => 1
  | _ => 0

abbrev Gen := StateM StdGen

/-- One step of a READ TRACE (what a decoder of this schema reads, in order), C16 trace tie.
    `rd kind w` = a read of `w` bits of the current cell; kinds: `u` unsigned field, `i` signed field, `b` raw bit string,
    `c` control bits (constructor tag, Maybe / Either bit, Bool, Unary), `v<l>` a `VarUInteger` with an `l`-bit length
    prefix (`w` = prefix + 8·len).  `enter` / `leave` = the next reference of the current cell is entered (`^X`) /
    left, fully consumed.  `rawref` = a reference taken unparsed (`^Cell`).  `push n` / `pop` = field-name / constructor
    markers (no reads). -/
inductive Ev where
  | rd (kind : String) (w : Nat)
  | enter | leave | rawref
  | push (name : String) | pop
  deriving Inhabited, DecidableEq

/-- path enumeration mode (driver only): at most `cap` values per list; `loc` = stop at nested named types
    (`typ`), which are then sampled instead of enumerated; `nested` = already inside a named type -/
structure PMode where
  cap : Nat
  loc : Bool
  nested : Bool

structure Codec where
  enc : Val → Option Frag
  dec : Frag → Option (Val × Frag)
  gen : Gen Val := pure .unit
  /-- the read sequence of the value's encoding (same recursion as `enc`); `Traced` (Proofs/Codec.lean) ties it to `enc` -/
  trace : Val → List Ev := fun _ => []
  /-- one generated value per PATH of the schema term (tag alternative × Maybe/Either bit × small flag field …),
      truncated to `cap`; driver only, no theorem mentions it -/
  paths : PMode → Gen (List Val) := fun _ => do return [← gen]

/-- round trip + exact consumption, any continuation -/
class Lawful (c : Codec) : Prop where
  law : ∀ v f, c.enc v = some f → ∀ k : Frag, c.dec (f ++ k) = some (v, k)

/-- round trip + exact consumption for a codec that closes its cell (`Any` = the rest of the slice) -/
class LawfulEnd (c : Codec) : Prop where
  law : ∀ v f, c.enc v = some f → c.dec f = some (v, Frag.nil)

/-- the trace, replayed as a read script on a stack of open cells (top = current cell): `rd _ w` drops `w` bits,
    `enter` opens the first unread reference (an ordinary cell), `leave` requires the open cell to be exhausted,
    `rawref` drops a reference -/
def Ev.step : Ev → List Frag → Option (List Frag)
  | .rd _ w, s :: st => if s.bits.length < w then none else some (⟨s.bits.drop w, s.refs⟩ :: st)
  | .enter, s :: st =>
    match s.refs with
    | Cell.mk false b r :: more => some (⟨b, r⟩ :: ⟨s.bits, more⟩ :: st)
    | _ => none
  | .leave, s :: st => match s.bits, s.refs with | [], [] => some st | _, _ => none
  | .rawref, s :: st => match s.refs with | _ :: more => some (⟨s.bits, more⟩ :: st) | [] => none
  | .push _, st => some st
  | .pop, st => some st
  | _, [] => none

def replay : List Ev → List Frag → Option (List Frag)
  | [], st => some st
  | e :: es, st => match e.step st with | some st' => replay es st' | none => none

/-- a codec whose trace is an exact read script of its encoding: replayed on the encoding followed by ANY continuation
    (and any enclosing cells) it consumes exactly the encoding, every entered cell being exhausted when it is left -/
class Traced (c : Codec) : Prop where
  law : ∀ v f, c.enc v = some f → ∀ (k : Frag) (st : List Frag), replay (c.trace v) ((f ++ k) :: st) = some (k :: st)

/-! ### generators (driver only) -/

def gNat (lo hi : Nat) : Gen Nat := fun g => randNat g lo hi
def gBool : Gen Bool := do return (← gNat 0 1) == 1
def gBits : Nat → Gen Bits
  | 0 => pure []
  | n+1 => do let b ← gBool; let r ← gBits n; pure (b :: r)

/-- 0, 1, max, top bit, or random in `[0, 2^n)` -/
def gUintVal (n : Nat) : Gen Nat := do
  if n = 0 then return 0
  let mode ← gNat 0 9
  if mode = 0 then return 0
  if mode = 1 then return 1
  if mode = 2 then return 2 ^ n - 1
  if mode = 3 then return 2 ^ (n - 1)
  let bs ← gBits n
  return natOfBits bs

def gPick {α} [Inhabited α] (xs : List α) : Gen α := do
  let i ← gNat 0 (xs.length - 1)
  return xs[i]!

/-! ### primitive combinators -/

/-- no bits: `Val.unit` -/
def nothing : Codec where
  enc v := match v with | .unit => some Frag.nil | _ => none
  dec s := some (.unit, s)
  gen := pure .unit

/-- the empty type -/
def failC : Codec where
  enc _ := none
  dec _ := none

/-- `uintN` / `(## n)` -/
def uint (n : Nat) : Codec where
  enc v := match v with
    | .int i => if 0 ≤ i ∧ i.toNat < 2 ^ n then some (Frag.ofBits (natToBits n i.toNat)) else none
    | _ => none
  dec s := if s.bits.length < n then none
           else some (.int (natOfBits (s.bits.take n)), ⟨s.bits.drop n, s.refs⟩)
  gen := do return .int (← gUintVal n)
  trace _ := [.rd "u" n]
  -- a 1- or 2-bit number is a flag field that later fields may depend on: one path per value
  paths _ := if n = 0 ∨ n > 2 then do return [.int (← gUintVal n)]
             else pure ((List.range (2 ^ n)).map (fun (i : Nat) => Val.int i))

/-- `intN`, two's complement -/
def sint (n : Nat) : Codec where
  enc v := match v with
    | .int i =>
      if n = 0 then none
      else if -(2 ^ (n - 1) : Int) ≤ i ∧ i < (2 ^ (n - 1) : Int) then
        some (Frag.ofBits (natToBits n (if 0 ≤ i then i.toNat else (i + (2 ^ n : Int)).toNat)))
      else none
    | _ => none
  dec s := if n = 0 ∨ s.bits.length < n then none
           else
             let u := natOfBits (s.bits.take n)
             some (.int (if u < 2 ^ (n - 1) then (u : Int) else (u : Int) - (2 ^ n : Int)), ⟨s.bits.drop n, s.refs⟩)
  gen := do
    if n = 0 then return .int 0
    let u ← gUintVal n
    return .int (if u < 2 ^ (n - 1) then (u : Int) else (u : Int) - (2 ^ n : Int))
  trace _ := [.rd "i" n]

/-- `bitsN` / `(n * Bit)` -/
def bitsC (n : Nat) : Codec where
  enc v := match v with
    | .bits b => if b.length = n then some (Frag.ofBits b) else none
    | _ => none
  dec s := if s.bits.length < n then none else some (.bits (s.bits.take n), ⟨s.bits.drop n, s.refs⟩)
  gen := do
    let mode ← gNat 0 5
    if mode = 0 then return .bits (List.replicate n false)
    if mode = 1 then return .bits (List.replicate n true)
    return .bits (← gBits n)
  trace _ := [.rd "b" n]

/-- `Bool` -/
def boolC : Codec where
  enc v := match v with | .bool b => some (Frag.ofBits [b]) | _ => none
  dec s := match s.bits with
    | [] => none
    | b :: rest => some (.bool b, ⟨rest, s.refs⟩)
  gen := do return .bool (← gBool)
  trace _ := [.rd "c" 1]

/-- `int.bit_length` -/
def bitLenF : Nat → Nat → Nat
  | 0, _ => 0
  | f+1, v => if v = 0 then 0 else 1 + bitLenF f (v / 2)
def bitLen (v : Nat) : Nat := bitLenF v v

/-- `VarUInteger k` : `len:(#< k) value:(uint (len * 8))`, minimal `len` -/
def varUInt (k : Nat) : Codec where
  enc v := match v with
    | .int i =>
      let w := bitLen (k - 1)
      let len := (bitLen i.toNat + 7) / 8
      if 0 ≤ i ∧ len < k then some (Frag.ofBits (natToBits w len ++ natToBits (8 * len) i.toNat)) else none
    | _ => none
  dec s :=
    let w := bitLen (k - 1)
    if s.bits.length < w then none
    else
      let len := natOfBits (s.bits.take w)
      let r := s.bits.drop w
      if len ≥ k ∨ r.length < 8 * len then none
      else some (.int (natOfBits (r.take (8 * len))), ⟨r.drop (8 * len), s.refs⟩)
  gen := do
    let len ← if (← gBool) then gNat 0 (min 3 (k - 1)) else gNat 0 (k - 1)
    return .int (← gUintVal (8 * len))
  trace v := match v with
    | .int i => [.rd ("v" ++ toString (bitLen (k - 1))) (bitLen (k - 1) + 8 * ((bitLen i.toNat + 7) / 8))]
    | _ => []

def grams : Codec := varUInt 16

/-- `^Cell` : any cell, by reference -/
def cellRef : Codec where
  enc v := match v with | .cell c => some ⟨[], [c]⟩ | _ => none
  dec s := match s.refs with
    | [] => none
    | c :: rest => some (.cell c, ⟨s.bits, rest⟩)
  gen := do
    let n ← gNat 0 40
    let bs ← gBits n
    let leaf := Cell.mk false [true, false, true] []
    let withRef ← gBool
    return .cell (Cell.mk false bs (if withRef then [leaf] else []))
  trace _ := [.rawref]

/-- `Any` : the rest of the slice as a cell (closes the cell) -/
def rest : Codec where
  enc v := match v with | .cell (.mk false b r) => some ⟨b, r⟩ | _ => none
  dec s := some (.cell (.mk false s.bits s.refs), Frag.nil)
  gen := do
    let n ← gNat 0 64
    let bs ← gBits n
    let leaf := Cell.mk false [false, true, true, false] []
    let withRef ← gBool
    return .cell (Cell.mk false bs (if withRef then [leaf] else []))
  trace v := match v with
    | .cell (.mk _ b r) => .rd "b" b.length :: List.replicate r.length .rawref
    | _ => []

/-- `^X` : X in an ordinary cell of its own, which it fills exactly -/
def ref (c : Codec) : Codec where
  enc v := match c.enc v with
    | some f => if f.bits.length ≤ 1023 ∧ f.refs.length ≤ 4 then some ⟨[], [Cell.mk false f.bits f.refs]⟩ else none
    | none => none
  dec s := match s.refs with
    | Cell.mk false b r :: more =>
      match c.dec ⟨b, r⟩ with
      | some (v, ⟨[], []⟩) => some (v, ⟨s.bits, more⟩)
      | _ => none
    | _ => none
  gen := c.gen
  trace v := .enter :: (c.trace v ++ [.leave])
  paths m := c.paths m

/-- `Maybe X` : `Val.unit` = nothing -/
def maybe (c : Codec) : Codec where
  enc v := match v with
    | .unit => some (Frag.ofBits [false])
    | v => (c.enc v).map (Frag.ofBits [true] ++ ·)
  dec s := match s.bits with
    | [] => none
    | false :: r => some (.unit, ⟨r, s.refs⟩)
    | true :: r => c.dec ⟨r, s.refs⟩
  gen := do if (← gBool) then c.gen else pure .unit
  trace v := match v with
    | .unit => [.rd "c" 1]
    | v => .rd "c" 1 :: c.trace v
  paths m := do return (Val.unit :: (← c.paths m)).take m.cap

/-- `Either X Y` -/
def either (a b : Codec) : Codec where
  enc v := match v with
    | .con "left" x => (a.enc x).map (Frag.ofBits [false] ++ ·)
    | .con "right" y => (b.enc y).map (Frag.ofBits [true] ++ ·)
    | _ => none
  dec s := match s.bits with
    | [] => none
    | false :: r => (a.dec ⟨r, s.refs⟩).map (fun (v, s') => (.con "left" v, s'))
    | true :: r => (b.dec ⟨r, s.refs⟩).map (fun (v, s') => (.con "right" v, s'))
  gen := do if (← gBool) then return .con "right" (← b.gen) else return .con "left" (← a.gen)
  trace v := match v with
    | .con "left" x => .rd "c" 1 :: a.trace x
    | .con "right" y => .rd "c" 1 :: b.trace y
    | _ => []
  paths m := do
    let l ← a.paths m
    let r ← b.paths m
    return (l.map (Val.con "left") ++ r.map (Val.con "right")).take m.cap

/-- X with a side condition `{ p }` on its value -/
def constrained (c : Codec) (p : Val → Bool) (g : Option (Gen Val) := none) : Codec where
  enc v := if p v then c.enc v else none
  dec s := match c.dec s with
    | some (v, s') => if p v then some (v, s') else none
    | none => none
  gen := g.getD c.gen
  trace := c.trace
  paths m := do
    match g with
    | some g => return [← g]
    | none =>
      let vs := (← c.paths m).filter p
      if vs.isEmpty then return [← c.gen] else return vs

/-- same codec, other generator (one sampled path) -/
def withGen (c : Codec) (g : Gen Val) : Codec := { c with gen := g, paths := fun _ => do return [← g] }

/-- same codec, other path enumeration -/
def withPaths (c : Codec) (p : PMode → Gen (List Val)) : Codec := { c with paths := p }

/-- a NAMED TL-B type (= one parser function of the library): in `loc` mode its branch structure is enumerated only when
    it is the type under test; nested occurrences are sampled -/
def typ (_name : String) (c : Codec) : Codec :=
  { c with paths := fun m => if m.loc && m.nested then do return [← c.gen] else c.paths { m with nested := true } }

/-- same codec; every read of its trace is reported as control bits (dictionary labels: the library's label reader is not
    a field reader) -/
def Ev.untype : Ev → Ev
  | .rd _ w => .rd "c" w
  | e => e
def untyped (c : Codec) : Codec :=
  { c with trace := fun v => (c.trace v).map Ev.untype }

/-- a constant prefix `$0111` / `#9bc7a987` in front of X (no wrapper in the value) -/
def ctag (p : Bits) (c : Codec) : Codec where
  enc v := (c.enc v).map (Frag.ofBits p ++ ·)
  dec s := if p.isPrefixOf s.bits then c.dec ⟨s.bits.drop p.length, s.refs⟩ else none
  gen := c.gen
  trace v := .rd "c" p.length :: c.trace v
  paths m := c.paths m

/-- tag bits from a number: `tag 4 0b0111`, `tag 32 0x9bc7a987` -/
def tag (n v : Nat) : Bits := natToBits n v

/-! ### records with dependent fields -/

abbrev Field := String × (Env → Codec)

/-- plain field -/
def fld (n : String) (c : Codec) : Field := (n, fun _ => c)
/-- field whose type depends on earlier fields (`flags . 0?X`, `(bits len)`, `BlkPrevInfo after_merge`) -/
def dep (n : String) (f : Env → Codec) : Field := (n, f)

def encFields : List Field → Env → List (String × Val) → Option Frag
  | [], _, [] => some Frag.nil
  | (n, f) :: fs, env, (n', v) :: vs =>
    if n = n' then
      match (f env).enc v, encFields fs ((n, v) :: env) vs with
      | some a, some b => some (a ++ b)
      | _, _ => none
    else none
  | _, _, _ => none

def decFields : List Field → Env → Frag → Option (List (String × Val) × Frag)
  | [], _, s => some ([], s)
  | (n, f) :: fs, env, s =>
    match (f env).dec s with
    | none => none
    | some (v, s1) =>
      match decFields fs ((n, v) :: env) s1 with
      | none => none
      | some (vs, s2) => some ((n, v) :: vs, s2)

def genFields : List Field → Env → Gen (List (String × Val))
  | [], _ => pure []
  | (n, f) :: fs, env => do
    let v ← (f env).gen
    let vs ← genFields fs ((n, v) :: env)
    pure ((n, v) :: vs)

/-- same recursion as `encFields` -/
def traceFields : List Field → Env → List (String × Val) → List Ev
  | (n, f) :: fs, env, (_, v) :: vs => (.push n :: (f env).trace v) ++ (.pop :: traceFields fs ((n, v) :: env) vs)
  | _, _, _ => []

/-- one record per combination of the fields' paths (dependent fields see the chosen earlier values) -/
def pathsFields : List Field → PMode → Env → Gen (List (List (String × Val)))
  | [], _, _ => pure [[]]
  | (n, f) :: fs, m, env => do
    let vs ← (f env).paths m
    vs.foldlM (fun acc v => do
      if acc.length ≥ m.cap then return acc
      let rs ← pathsFields fs m ((n, v) :: env)
      return (acc ++ rs.map ((n, v) :: ·)).take m.cap) []

/-- `a:A b:B …` -/
def recd (fs : List Field) : Codec where
  enc v := match v with | .record vs => encFields fs [] vs | _ => none
  dec s := (decFields fs [] s).map (fun (vs, s') => (.record vs, s'))
  gen := do return .record (← genFields fs [])
  trace v := match v with | .record vs => traceFields fs [] vs | _ => []
  paths m := do return (← pathsFields fs m []).map Val.record

class LawfulFields (fs : List Field) : Prop where
  law : ∀ env vs f, encFields fs env vs = some f → ∀ k : Frag, decFields fs env (f ++ k) = some (vs, k)

class LawfulEndFields (fs : List Field) : Prop where
  law : ∀ env vs f, encFields fs env vs = some f → decFields fs env f = some (vs, Frag.nil)

/-! ### constructor alternatives -/

abbrev Alt := Bits × String × Codec

def encAlts : List Alt → String → Val → Option Frag
  | [], _, _ => none
  | (p, name, c) :: more, nm, v =>
    if nm = name then (c.enc v).map (Frag.ofBits p ++ ·) else encAlts more nm v

def decAlts : List Alt → Frag → Option (Val × Frag)
  | [], _ => none
  | (p, name, c) :: more, s =>
    if p.isPrefixOf s.bits then
      (c.dec ⟨s.bits.drop p.length, s.refs⟩).map (fun (v, s') => (.con name v, s'))
    else decAlts more s

/-- same recursion as `encAlts` -/
def traceAlts : List Alt → String → Val → List Ev
  | [], _, _ => []
  | (p, name, c) :: more, nm, v =>
    if nm = name then .rd "c" p.length :: .push ("$" ++ name) :: (c.trace v ++ [.pop]) else traceAlts more nm v

def pathsAlts : List Alt → PMode → Gen (List Val)
  | [], _ => pure []
  | (_, name, c) :: more, m => do
    let a ← c.paths m
    let b ← pathsAlts more m
    return (a.map (Val.con name) ++ b).take m.cap

def noClash (p : Bits) : List Bits → Bool
  | [] => true
  | q :: qs => !(p.isPrefixOf q) && !(q.isPrefixOf p) && noClash p qs

/-- no tag is a prefix of another -/
def prefixFree : List Bits → Bool
  | [] => true
  | p :: ps => noClash p ps && prefixFree ps

def altTags (alts : List Alt) : List Bits := alts.map (·.1)

def genAlts (alts : List Alt) : Gen Val := do
  let i ← gNat 0 (alts.length - 1)
  match alts[i]? with
  | some (_, name, c) => return .con name (← c.gen)
  | none => return .unit

/-- `c1$tag1 … = T; c2$tag2 … = T; …` — only a codec when the tags are prefix-free (otherwise the empty
    type; `c16_tags_prefix_free` shows every type of Block.lean passes the test) -/
def tagged (alts : List Alt) : Codec :=
  if prefixFree (altTags alts) then
    { enc := fun v => match v with | .con nm x => encAlts alts nm x | _ => none
      dec := fun s => decAlts alts s
      gen := genAlts alts
      trace := fun v => match v with | .con nm x => traceAlts alts nm x | _ => []
      paths := fun m => pathsAlts alts m }
  else failC

class LawfulAlts (alts : List Alt) : Prop where
  law : ∀ p n c, (p, n, c) ∈ alts → Lawful c

class LawfulEndAlts (alts : List Alt) : Prop where
  law : ∀ p n c, (p, n, c) ∈ alts → LawfulEnd c

/-- a single un-tagged named constructor (`prev_blk_info$_ …`) -/
def named (name : String) (c : Codec) : Codec where
  enc v := match v with | .con nm x => if nm = name then c.enc x else none | _ => none
  dec s := (c.dec s).map (fun (v, s') => (.con name v, s'))
  gen := do return .con name (← c.gen)
  trace v := match v with | .con _ x => .push ("$" ++ name) :: (c.trace x ++ [.pop]) | _ => []
  paths m := do return (← c.paths m).map (Val.con name)

/-! ### numeric ranges -/

def vBetween (lo hi : Nat) : Val → Bool
  | .int i => decide (0 ≤ i) && decide (lo ≤ i.toNat) && decide (i.toNat ≤ hi)
  | _ => false

/-- `uint n` restricted to `lo..hi`; generator: lo, hi or random in between -/
def uintRange (n lo hi : Nat) : Codec :=
  withPaths (constrained (uint n) (vBetween lo hi) (some (do
    let mode ← gNat 0 3
    if mode = 0 then return .int lo
    if mode = 1 then return .int hi
    return .int (← gNat lo hi))))
    (fun _ => do
      -- a range of at most 4 values is a flag field: one path per value
      if hi - lo ≤ 3 then return (List.range (hi - lo + 1)).map (fun (i : Nat) => Val.int ((lo + i : Nat) : Int))
      let mode ← gNat 0 3
      if mode = 0 then return [.int lo]
      if mode = 1 then return [.int hi]
      return [.int (← gNat lo hi)])

/-- `#<= m` -/
def uintLe (m : Nat) : Codec := uintRange (bitLen m) 0 m
/-- `#< m` -/
def uintLt (m : Nat) : Codec := uintRange (bitLen (m - 1)) 0 (m - 1)

/-! ### Unary, HmLabel, Hashmap, HashmapE, HashmapAug, HashmapAugE, BinTree -/

def decUnary : Bits → Option (Nat × Bits)
  | [] => none
  | false :: r => some (0, r)
  | true :: r => (decUnary r).map (fun (n, r') => (n + 1, r'))

/-- `Unary ~n` : n ones then a zero -/
def unary : Codec where
  enc v := match v with
    | .int i => if 0 ≤ i then some (Frag.ofBits (List.replicate i.toNat true ++ [false])) else none
    | _ => none
  dec s := (decUnary s.bits).map (fun (n, r) => (.int n, ⟨r, s.refs⟩))
  gen := do return .int (← gNat 0 6)
  trace v := match v with | .int i => [.rd "c" (i.toNat + 1)] | _ => []

/-- `HmLabel ~n m` ; the value carries the constructor and `n` -/
def hmLabel (m : Nat) : Codec :=
  untyped <| tagged [
    ([false], "hml_short", recd [fld "n" (constrained unary (vBetween 0 m)), dep "s" (fun e => bitsC (e.nat "n"))]),
    ([true, false], "hml_long", recd [fld "n" (uintLe m), dep "s" (fun e => bitsC (e.nat "n"))]),
    ([true, true], "hml_same", recd [fld "v" boolC, fld "n" (uintLe m)])]

/-- `~n` of a label value -/
def labelLen : Val → Nat
  | .con _ (.record fs) => Env.nat fs "n"
  | _ => 0

/-- `HashmapNode (n - l) X` given the edge codec for the children -/
def hmNode (edge : Nat → Codec) (X : Codec) (n l : Nat) : Codec :=
  if l ≤ n then
    (if n - l = 0 then X
     else recd [fld "left" (ref (edge (n - l - 1))), fld "right" (ref (edge (n - l - 1)))])
  else failC

/-- `Hashmap n X` (`hm_edge`), recursion bounded by `fuel` (> n suffices) -/
def hashmapF (X : Codec) : Nat → Nat → Codec
  | 0, _ => failC
  | fuel+1, n => recd [fld "label" (hmLabel n),
                       dep "node" (fun e => hmNode (hashmapF X fuel) X n (labelLen (e.get "label")))]

/-- `HashmapAugNode (n - l) X Y` -/
def ahmNode (edge : Nat → Codec) (X Y : Codec) (n l : Nat) : Codec :=
  if l ≤ n then
    (if n - l = 0 then recd [fld "extra" Y, fld "value" X]
     else recd [fld "left" (ref (edge (n - l - 1))), fld "right" (ref (edge (n - l - 1))), fld "extra" Y])
  else failC

def hashmapAugF (X Y : Codec) : Nat → Nat → Codec
  | 0, _ => failC
  | fuel+1, n => recd [fld "label" (hmLabel n),
                       dep "node" (fun e => ahmNode (hashmapAugF X Y fuel) X Y n (labelLen (e.get "label")))]

/-- shortest label form for the bit string `s` with bound `m` -/
def mkLabel (m : Nat) (s : Bits) : Val :=
  let l := s.length
  let k := bitLen m
  let same := l > 0 && (s.all (· == true) || s.all (· == false))
  let cShort := 2 * l + 2
  let cLong := 2 + k + l
  let cSame := 3 + k
  if same && cSame < cShort && cSame < cLong then
    .con "hml_same" (.record [("v", .bool (s.head? == some true)), ("n", .int l)])
  else if cShort ≤ cLong then .con "hml_short" (.record [("n", .int l), ("s", .bits s)])
  else .con "hml_long" (.record [("n", .int l), ("s", .bits s)])

def gLabelBits (l : Nat) : Gen Bits := do
  let mode ← gNat 0 4
  if mode = 0 then return List.replicate l true
  if mode = 1 then return List.replicate l false
  gBits l

/-- a random Patricia tree of depth ≤ `depth` with canonical labels -/
def genEdge (leaf : Gen Val) (fork : Val → Val → Gen Val) : Nat → Nat → Gen Val
  | 0, n => do
    let s ← gLabelBits n
    return .record [("label", mkLabel n s), ("node", ← leaf)]
  | depth+1, n => do
    let stop ← gNat 0 2
    if stop = 0 ∨ n = 0 then
      let s ← gLabelBits n
      return .record [("label", mkLabel n s), ("node", ← leaf)]
    else
      let l ← gNat 0 (n - 1)
      let l := if (← gNat 0 2) = 0 then 0 else l
      let s ← gLabelBits l
      let a ← genEdge leaf fork depth (n - l - 1)
      let b ← genEdge leaf fork depth (n - l - 1)
      return .record [("label", mkLabel n s), ("node", ← fork a b)]

def hashmap (n : Nat) (X : Codec) : Codec :=
  withGen (hashmapF X (n + 1) n)
    (genEdge X.gen (fun a b => pure (.record [("left", a), ("right", b)])) 2 n)

def hashmapAug (n : Nat) (X Y : Codec) : Codec :=
  withGen (hashmapAugF X Y (n + 1) n)
    (genEdge (do let y ← Y.gen; let x ← X.gen; return .record [("extra", y), ("value", x)])
             (fun a b => do return .record [("left", a), ("right", b), ("extra", ← Y.gen)]) 2 n)

/-- `HashmapE n X` -/
def hashmapE (n : Nat) (X : Codec) : Codec :=
  tagged [([false], "hme_empty", nothing), ([true], "hme_root", ref (hashmap n X))]

/-- `HashmapAugE n X Y` -/
def hashmapAugE (n : Nat) (X Y : Codec) : Codec :=
  tagged [([false], "ahme_empty", recd [fld "extra" Y]),
          ([true], "ahme_root", recd [fld "root" (ref (hashmapAug n X Y)), fld "extra" Y])]

/-- `BinTree X`, depth bounded by `fuel` -/
def binTreeF (X : Codec) : Nat → Codec
  | 0 => failC
  | fuel+1 => tagged [([false], "bt_leaf", X),
                      ([true], "bt_fork", recd [fld "left" (ref (binTreeF X fuel)), fld "right" (ref (binTreeF X fuel))])]

def genBinTree (leaf : Gen Val) : Nat → Gen Val
  | 0 => do return .con "bt_leaf" (← leaf)
  | d+1 => do
    if (← gNat 0 2) = 0 then return .con "bt_leaf" (← leaf)
    let a ← genBinTree leaf d
    let b ← genBinTree leaf d
    return .con "bt_fork" (.record [("left", a), ("right", b)])

def binTree (X : Codec) : Codec := withGen (binTreeF X 64) (genBinTree X.gen 2)

end TonVerif.Tlb
