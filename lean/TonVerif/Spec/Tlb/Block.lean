/-
The TL-B types of `pytoniq_core/tlb/schemas/block.tlb` that the transaction / account / block parsers
read, as TERMS of the lawful codec combinators (Spec/Tlb/Codec.lean).  This is the "independent
implementation of the schema" of property C16.  Field and constructor names are the schema's.

Conventions: an anonymous `^[ … ]` group is a field `_ref1`, `_ref2`; the anonymous field of
`account_active$1 _:StateInit` is `_`.  Constructors that exist only in newer upstream `block.tlb`
revisions but are read by the parsers (msg_envelope_v2, msg_metadata, msg_import_deferred_*,
msg_export_new_defer, msg_export_deferred_tr) are transcribed from upstream and marked (upstream).
-/
import TonVerif.Spec.Tlb.Codec

namespace TonVerif.Tlb
open TonVerif

def bits256 : Codec := bitsC 256

/-! ### addresses, currencies, messages (what the C16 parsers read through) -/

def anycast : Codec := typ "anycast" (
  recd [fld "depth" (uintRange 5 1 30), dep "rewrite_pfx" (fun e => bitsC (e.nat "depth"))])

def addrNoneAlt : Alt := (tag 2 0, "addr_none", nothing)
def addrExternAlt : Alt :=
  (tag 2 1, "addr_extern", recd [fld "len" (uint 9), dep "external_address" (fun e => bitsC (e.nat "len"))])
def addrStdAlt : Alt :=
  (tag 2 2, "addr_std", recd [fld "anycast" (maybe anycast), fld "workchain_id" (sint 8), fld "address" bits256])
def addrVarAlt : Alt :=
  (tag 2 3, "addr_var", recd [fld "anycast" (maybe anycast), fld "addr_len" (uint 9), fld "workchain_id" (sint 32),
                              dep "address" (fun e => bitsC (e.nat "addr_len"))])

def msgAddressExtAlts : List Alt := [addrNoneAlt, addrExternAlt]
def msgAddressExt : Codec := typ "msgAddressExt" (tagged msgAddressExtAlts)
/-- generator: `addr_std` only (the library's `load_address` has no `addr_var`; addresses are C06/C15 matter) -/
def msgAddressIntAlts : List Alt := [addrStdAlt, addrVarAlt]
def msgAddressInt : Codec := typ "msgAddressInt" (withPaths (withGen (tagged msgAddressIntAlts) (genAlts [addrStdAlt]))
  (fun m => (tagged [addrStdAlt]).paths m))

def extraCurrencyCollection : Codec := typ "extraCurrencyCollection" (recd [fld "dict" (hashmapE 32 (varUInt 32))])
def currencyCollection : Codec := typ "currencyCollection" (recd [fld "grams" grams, fld "other" extraCurrencyCollection])

def commonMsgInfoAlts : List Alt :=
  [
    (tag 1 0, "int_msg_info", recd [fld "ihr_disabled" boolC, fld "bounce" boolC, fld "bounced" boolC,
      fld "src" msgAddressInt, fld "dest" msgAddressInt, fld "value" currencyCollection,
      fld "ihr_fee" grams, fld "fwd_fee" grams, fld "created_lt" (uint 64), fld "created_at" (uint 32)]),
    (tag 2 2, "ext_in_msg_info", recd [fld "src" msgAddressExt, fld "dest" msgAddressInt, fld "import_fee" grams]),
    (tag 2 3, "ext_out_msg_info", recd [fld "src" msgAddressInt, fld "dest" msgAddressExt,
      fld "created_lt" (uint 64), fld "created_at" (uint 32)])]
def commonMsgInfo : Codec := typ "commonMsgInfo" (tagged (commonMsgInfoAlts))

def tickTock : Codec := typ "tickTock" (recd [fld "tick" boolC, fld "tock" boolC])

def stateInit : Codec := typ "stateInit" (
  recd [fld "split_depth" (maybe (uint 5)), fld "special" (maybe tickTock),
        fld "code" (maybe cellRef), fld "data" (maybe cellRef), fld "library" (maybe cellRef)])

/-- `Message Any` : closes its cell (body `Either X ^X` with `X = Any`) -/
def message : Codec := typ "message" (
  recd [fld "info" commonMsgInfo, fld "init" (maybe (either stateInit (ref stateInit))),
        fld "body" (either rest (ref rest))])

/-! ### accounts -/

def accountStatusAlts : List Alt :=
  [(tag 2 0, "acc_state_uninit", nothing), (tag 2 1, "acc_state_frozen", nothing),
          (tag 2 2, "acc_state_active", nothing), (tag 2 3, "acc_state_nonexist", nothing)]
def accountStatus : Codec := typ "accountStatus" (tagged (accountStatusAlts))

def hashUpdate : Codec := typ "hashUpdate" (ctag (tag 8 0x72) (recd [fld "old_hash" bits256, fld "new_hash" bits256]))

def storageUsed : Codec := typ "storageUsed" (recd [fld "cells" (varUInt 7), fld "bits" (varUInt 7), fld "public_cells" (varUInt 7)])
def storageUsedShort : Codec := typ "storageUsedShort" (recd [fld "cells" (varUInt 7), fld "bits" (varUInt 7)])
def storageInfo : Codec := typ "storageInfo" (
  recd [fld "used" storageUsed, fld "last_paid" (uint 32), fld "due_payment" (maybe grams)])

def accountStateAlts : List Alt :=
  [(tag 2 0, "account_uninit", nothing), (tag 1 1, "account_active", recd [fld "_" stateInit]),
          (tag 2 1, "account_frozen", recd [fld "state_hash" bits256])]
def accountState : Codec := typ "accountState" (tagged (accountStateAlts))

def accountStorage : Codec := typ "accountStorage" (
  recd [fld "last_trans_lt" (uint 64), fld "balance" currencyCollection, fld "state" accountState])

def accountAlts : List Alt :=
  [(tag 1 0, "account_none", nothing),
          (tag 1 1, "account", recd [fld "addr" msgAddressInt, fld "storage_stat" storageInfo, fld "storage" accountStorage])]
def account : Codec := typ "account" (tagged (accountAlts))

def shardAccount : Codec := typ "shardAccount" (
  recd [fld "account" (ref account), fld "last_trans_hash" bits256, fld "last_trans_lt" (uint 64)])

def depthBalanceInfo : Codec := typ "depthBalanceInfo" (recd [fld "split_depth" (uintLe 30), fld "balance" currencyCollection])
def shardAccounts : Codec := typ "shardAccounts" (hashmapAugE 256 shardAccount depthBalanceInfo)

/-! ### transaction phases -/

def accStatusChangeAlts : List Alt :=
  [(tag 1 0, "acst_unchanged", nothing), (tag 2 2, "acst_frozen", nothing), (tag 2 3, "acst_deleted", nothing)]
def accStatusChange : Codec := typ "accStatusChange" (tagged (accStatusChangeAlts))

def computeSkipReasonAlts : List Alt :=
  [(tag 2 0, "cskip_no_state", nothing), (tag 2 1, "cskip_bad_state", nothing),
          (tag 2 2, "cskip_no_gas", nothing), (tag 3 6, "cskip_suspended", nothing)]
def computeSkipReason : Codec := typ "computeSkipReason" (tagged (computeSkipReasonAlts))

def trStoragePhase : Codec := typ "trStoragePhase" (
  recd [fld "storage_fees_collected" grams, fld "storage_fees_due" (maybe grams), fld "status_change" accStatusChange])

def trCreditPhase : Codec := typ "trCreditPhase" (recd [fld "due_fees_collected" (maybe grams), fld "credit" currencyCollection])

def trComputePhaseAlts : List Alt :=
  [
    (tag 1 0, "tr_phase_compute_skipped", recd [fld "reason" computeSkipReason]),
    (tag 1 1, "tr_phase_compute_vm", recd [fld "success" boolC, fld "msg_state_used" boolC,
      fld "account_activated" boolC, fld "gas_fees" grams,
      fld "_ref1" (ref (recd [fld "gas_used" (varUInt 7), fld "gas_limit" (varUInt 7),
        fld "gas_credit" (maybe (varUInt 3)), fld "mode" (sint 8), fld "exit_code" (sint 32),
        fld "exit_arg" (maybe (sint 32)), fld "vm_steps" (uint 32),
        fld "vm_init_state_hash" bits256, fld "vm_final_state_hash" bits256]))])]
def trComputePhase : Codec := typ "trComputePhase" (tagged (trComputePhaseAlts))

def trActionPhase : Codec := typ "trActionPhase" (
  recd [fld "success" boolC, fld "valid" boolC, fld "no_funds" boolC, fld "status_change" accStatusChange,
        fld "total_fwd_fees" (maybe grams), fld "total_action_fees" (maybe grams),
        fld "result_code" (sint 32), fld "result_arg" (maybe (sint 32)), fld "tot_actions" (uint 16),
        fld "spec_actions" (uint 16), fld "skipped_actions" (uint 16), fld "msgs_created" (uint 16),
        fld "action_list_hash" bits256, fld "tot_msg_size" storageUsedShort])

def trBouncePhaseAlts : List Alt :=
  [(tag 2 0, "tr_phase_bounce_negfunds", nothing),
          (tag 2 1, "tr_phase_bounce_nofunds", recd [fld "msg_size" storageUsedShort, fld "req_fwd_fees" grams]),
          (tag 1 1, "tr_phase_bounce_ok", recd [fld "msg_size" storageUsedShort, fld "msg_fees" grams, fld "fwd_fees" grams])]
def trBouncePhase : Codec := typ "trBouncePhase" (tagged (trBouncePhaseAlts))

def splitMergeInfo : Codec := typ "splitMergeInfo" (
  recd [fld "cur_shard_pfx_len" (uint 6), fld "acc_split_depth" (uint 6), fld "this_addr" bits256, fld "sibling_addr" bits256])

/-! ### transactions (Transaction ↔ TransactionDescr recursion through `prepare_transaction:^Transaction`
    is bounded by a nesting budget; the laws hold for every budget) -/

/-- `TransactionDescr`, given the codec of a nested `Transaction` -/
def transactionDescrFAlts (tx : Codec) : List Alt :=
  [
    (tag 4 0, "trans_ord", recd [fld "credit_first" boolC, fld "storage_ph" (maybe trStoragePhase),
      fld "credit_ph" (maybe trCreditPhase), fld "compute_ph" trComputePhase, fld "action" (maybe (ref trActionPhase)),
      fld "aborted" boolC, fld "bounce" (maybe trBouncePhase), fld "destroyed" boolC]),
    (tag 4 1, "trans_storage", recd [fld "storage_ph" trStoragePhase]),
    (tag 3 1, "trans_tick_tock", recd [fld "is_tock" boolC, fld "storage_ph" trStoragePhase,
      fld "compute_ph" trComputePhase, fld "action" (maybe (ref trActionPhase)), fld "aborted" boolC, fld "destroyed" boolC]),
    (tag 4 4, "trans_split_prepare", recd [fld "split_info" splitMergeInfo, fld "storage_ph" (maybe trStoragePhase),
      fld "compute_ph" trComputePhase, fld "action" (maybe (ref trActionPhase)), fld "aborted" boolC, fld "destroyed" boolC]),
    (tag 4 5, "trans_split_install", recd [fld "split_info" splitMergeInfo, fld "prepare_transaction" (ref tx),
      fld "installed" boolC]),
    (tag 4 6, "trans_merge_prepare", recd [fld "split_info" splitMergeInfo, fld "storage_ph" trStoragePhase, fld "aborted" boolC]),
    (tag 4 7, "trans_merge_install", recd [fld "split_info" splitMergeInfo, fld "prepare_transaction" (ref tx),
      fld "storage_ph" (maybe trStoragePhase), fld "credit_ph" (maybe trCreditPhase), fld "compute_ph" trComputePhase,
      fld "action" (maybe (ref trActionPhase)), fld "aborted" boolC, fld "destroyed" boolC])]
def transactionDescrF (tx : Codec) : Codec := typ "transactionDescrF" (tagged (transactionDescrFAlts tx))

/-- `Transaction` with at most `budget` levels of transaction nesting -/
def transactionF : Nat → Codec
  | 0 => failC
  | budget+1 =>
    typ "transaction" <| ctag (tag 4 7) (recd [fld "account_addr" bits256, fld "lt" (uint 64), fld "prev_trans_hash" bits256,
      fld "prev_trans_lt" (uint 64), fld "now" (uint 32), fld "outmsg_cnt" (uint 15),
      fld "orig_status" accountStatus, fld "end_status" accountStatus,
      fld "_ref1" (ref (recd [fld "in_msg" (maybe (ref message)), fld "out_msgs" (hashmapE 15 (ref message))])),
      fld "total_fees" currencyCollection, fld "state_update" (ref hashUpdate),
      fld "description" (ref (transactionDescrF (transactionF budget)))])

def transaction : Codec := transactionF 3
def transactionDescr : Codec := transactionDescrF (transactionF 2)

def accountBlock : Codec := typ "accountBlock" (
  ctag (tag 4 5) (recd [fld "account_addr" bits256,
    fld "transactions" (hashmapAug 64 (ref transaction) currencyCollection),
    fld "state_update" (ref hashUpdate)]))

def shardAccountBlocks : Codec := typ "shardAccountBlocks" (hashmapAugE 256 accountBlock currencyCollection)

/-! ### message descriptors -/

def intermediateAddressAlts : List Alt :=
  [(tag 1 0, "interm_addr_regular", recd [fld "use_dest_bits" (uintLe 96)]),
          (tag 2 2, "interm_addr_simple", recd [fld "workchain_id" (sint 8), fld "addr_pfx" (uint 64)]),
          (tag 2 3, "interm_addr_ext", recd [fld "workchain_id" (sint 32), fld "addr_pfx" (uint 64)])]
def intermediateAddress : Codec := typ "intermediateAddress" (tagged (intermediateAddressAlts))

/-- (upstream) -/
def msgMetadata : Codec := typ "msgMetadata" (
  ctag (tag 4 0) (recd [fld "depth" (uint 32), fld "initiator_addr" msgAddressInt, fld "initiator_lt" (uint 64)]))

def msgEnvelopeAlts : List Alt :=
  [
    (tag 4 4, "msg_envelope", recd [fld "cur_addr" intermediateAddress, fld "next_addr" intermediateAddress,
      fld "fwd_fee_remaining" grams, fld "msg" (ref message)]),
    (tag 4 5, "msg_envelope_v2", recd [fld "cur_addr" intermediateAddress, fld "next_addr" intermediateAddress,
      fld "fwd_fee_remaining" grams, fld "msg" (ref message), fld "emitted_lt" (maybe (uint 64)),
      fld "metadata" (maybe msgMetadata)])]
def msgEnvelope : Codec := typ "msgEnvelope" (tagged (msgEnvelopeAlts))

def inMsgAlts : List Alt :=
  [
    (tag 3 0, "msg_import_ext", recd [fld "msg" (ref message), fld "transaction" (ref transaction)]),
    (tag 3 2, "msg_import_ihr", recd [fld "msg" (ref message), fld "transaction" (ref transaction),
      fld "ihr_fee" grams, fld "proof_created" cellRef]),
    (tag 3 3, "msg_import_imm", recd [fld "in_msg" (ref msgEnvelope), fld "transaction" (ref transaction), fld "fwd_fee" grams]),
    (tag 3 4, "msg_import_fin", recd [fld "in_msg" (ref msgEnvelope), fld "transaction" (ref transaction), fld "fwd_fee" grams]),
    (tag 3 5, "msg_import_tr", recd [fld "in_msg" (ref msgEnvelope), fld "out_msg" (ref msgEnvelope), fld "transit_fee" grams]),
    (tag 3 6, "msg_discard_fin", recd [fld "in_msg" (ref msgEnvelope), fld "transaction_id" (uint 64), fld "fwd_fee" grams]),
    (tag 3 7, "msg_discard_tr", recd [fld "in_msg" (ref msgEnvelope), fld "transaction_id" (uint 64), fld "fwd_fee" grams,
      fld "proof_delivered" cellRef]),
    (tag 5 4, "msg_import_deferred_fin", recd [fld "in_msg" (ref msgEnvelope), fld "transaction" (ref transaction),
      fld "fwd_fee" grams]),                                                                  -- (upstream)
    (tag 5 5, "msg_import_deferred_tr", recd [fld "in_msg" (ref msgEnvelope), fld "out_msg" (ref msgEnvelope)])]
def inMsg : Codec := typ "inMsg" (tagged (inMsgAlts))  -- (upstream)

def importFees : Codec := typ "importFees" (recd [fld "fees_collected" grams, fld "value_imported" currencyCollection])

def outMsgAlts : List Alt :=
  [
    (tag 3 0, "msg_export_ext", recd [fld "msg" (ref message), fld "transaction" (ref transaction)]),
    (tag 3 2, "msg_export_imm", recd [fld "out_msg" (ref msgEnvelope), fld "transaction" (ref transaction), fld "reimport" (ref inMsg)]),
    (tag 3 1, "msg_export_new", recd [fld "out_msg" (ref msgEnvelope), fld "transaction" (ref transaction)]),
    (tag 3 3, "msg_export_tr", recd [fld "out_msg" (ref msgEnvelope), fld "imported" (ref inMsg)]),
    (tag 4 12, "msg_export_deq", recd [fld "out_msg" (ref msgEnvelope), fld "import_block_lt" (uint 63)]),
    (tag 4 13, "msg_export_deq_short", recd [fld "msg_env_hash" bits256, fld "next_workchain" (sint 32),
      fld "next_addr_pfx" (uint 64), fld "import_block_lt" (uint 64)]),
    (tag 3 7, "msg_export_tr_req", recd [fld "out_msg" (ref msgEnvelope), fld "imported" (ref inMsg)]),
    (tag 3 4, "msg_export_deq_imm", recd [fld "out_msg" (ref msgEnvelope), fld "reimport" (ref inMsg)]),
    (tag 5 20, "msg_export_new_defer", recd [fld "out_msg" (ref msgEnvelope), fld "transaction" (ref transaction)]),  -- (upstream)
    (tag 5 21, "msg_export_deferred_tr", recd [fld "out_msg" (ref msgEnvelope), fld "imported" (ref inMsg)])]
def outMsg : Codec := typ "outMsg" (tagged (outMsgAlts))  -- (upstream)

def inMsgDescr : Codec := typ "inMsgDescr" (hashmapAugE 256 inMsg importFees)
def outMsgDescr : Codec := typ "outMsgDescr" (hashmapAugE 256 outMsg currencyCollection)

/-! ### block header, value flow, shards -/

def shardIdent : Codec := typ "shardIdent" (
  ctag (tag 2 0) (recd [fld "shard_pfx_bits" (uintLe 60), fld "workchain_id" (sint 32), fld "shard_prefix" (uint 64)]))

def globalVersion : Codec := typ "globalVersion" (ctag (tag 8 0xc4) (recd [fld "version" (uint 32), fld "capabilities" (uint 64)]))

def extBlkRef : Codec := typ "extBlkRef" (
  recd [fld "end_lt" (uint 64), fld "seq_no" (uint 32), fld "root_hash" bits256, fld "file_hash" bits256])

def blkMasterInfo : Codec := typ "blkMasterInfo" (recd [fld "master" extBlkRef])

/-- `BlkPrevInfo m` -/
def blkPrevInfo (m : Nat) : Codec := typ "blkPrevInfo" (
  if m = 0 then named "prev_blk_info" (recd [fld "prev" extBlkRef])
  else named "prev_blks_info" (recd [fld "prev1" (ref extBlkRef), fld "prev2" (ref extBlkRef)]))

def blockInfo : Codec := typ "blockInfo" (
  ctag (tag 32 0x9bc7a987) (recd [
    fld "version" (uint 32), fld "not_master" (uint 1), fld "after_merge" (uint 1), fld "before_split" (uint 1),
    fld "after_split" (uint 1), fld "want_split" boolC, fld "want_merge" boolC, fld "key_block" boolC,
    fld "vert_seqno_incr" (uint 1), fld "flags" (uintRange 8 0 1),
    fld "seq_no" (uintRange 32 1 (2 ^ 32 - 1)),
    dep "vert_seq_no" (fun e => uintRange 32 (e.nat "vert_seqno_incr") (2 ^ 32 - 1)),
    fld "shard" shardIdent, fld "gen_utime" (uint 32), fld "start_lt" (uint 64), fld "end_lt" (uint 64),
    fld "gen_validator_list_hash_short" (uint 32), fld "gen_catchain_seqno" (uint 32),
    fld "min_ref_mc_seqno" (uint 32), fld "prev_key_block_seqno" (uint 32),
    dep "gen_software" (fun e => if e.nat "flags" % 2 = 1 then globalVersion else nothing),
    dep "master_ref" (fun e => if e.nat "not_master" = 1 then ref blkMasterInfo else nothing),
    dep "prev_ref" (fun e => ref (blkPrevInfo (e.nat "after_merge"))),
    dep "prev_vert_ref" (fun e => if e.nat "vert_seqno_incr" = 1 then ref (blkPrevInfo 0) else nothing)]))

def valueFlowIn : Codec := typ "valueFlowIn" (
  recd [fld "from_prev_blk" currencyCollection, fld "to_next_blk" currencyCollection,
        fld "imported" currencyCollection, fld "exported" currencyCollection])
def valueFlowOut : Codec := typ "valueFlowOut" (
  recd [fld "fees_imported" currencyCollection, fld "recovered" currencyCollection,
        fld "created" currencyCollection, fld "minted" currencyCollection])

def valueFlowAlts : List Alt :=
  [
    (tag 32 0xb8e48dfb, "value_flow", recd [fld "_ref1" (ref valueFlowIn), fld "fees_collected" currencyCollection,
      fld "_ref2" (ref valueFlowOut)]),
    (tag 32 0x3ebf98b7, "value_flow_v2", recd [fld "_ref1" (ref valueFlowIn), fld "fees_collected" currencyCollection,
      fld "burned" currencyCollection, fld "_ref2" (ref valueFlowOut)])]
def valueFlow : Codec := typ "valueFlow" (tagged (valueFlowAlts))

def futureSplitMergeAlts : List Alt :=
  [(tag 1 0, "fsm_none", nothing),
          (tag 2 2, "fsm_split", recd [fld "split_utime" (uint 32), fld "interval" (uint 32)]),
          (tag 2 3, "fsm_merge", recd [fld "merge_utime" (uint 32), fld "interval" (uint 32)])]
def futureSplitMerge : Codec := typ "futureSplitMerge" (tagged (futureSplitMergeAlts))

def shardDescrHead : List Field :=
  [fld "seq_no" (uint 32), fld "reg_mc_seqno" (uint 32), fld "start_lt" (uint 64), fld "end_lt" (uint 64),
   fld "root_hash" bits256, fld "file_hash" bits256, fld "before_split" boolC, fld "before_merge" boolC,
   fld "want_split" boolC, fld "want_merge" boolC, fld "nx_cc_updated" boolC, fld "flags" (uintRange 3 0 0),
   fld "next_catchain_seqno" (uint 32), fld "next_validator_shard" (uint 64), fld "min_ref_mc_seqno" (uint 32),
   fld "gen_utime" (uint 32), fld "split_merge_at" futureSplitMerge]

def shardDescrAlts : List Alt :=
  [
    (tag 4 0xb, "shard_descr", recd (shardDescrHead ++
      [fld "fees_collected" currencyCollection, fld "funds_created" currencyCollection])),
    (tag 4 0xa, "shard_descr_new", recd (shardDescrHead ++
      [fld "_ref1" (ref (recd [fld "fees_collected" currencyCollection, fld "funds_created" currencyCollection]))]))]
def shardDescr : Codec := typ "shardDescr" (tagged (shardDescrAlts))

/-- `_ (HashmapE 32 ^(BinTree ShardDescr)) = ShardHashes` -/
def shardHashes : Codec := typ "shardHashes" (hashmapE 32 (ref (binTree shardDescr)))

/-! ### validators, catchain, consensus (config parameters 28, 29, 32-37) -/

def sigPubKey : Codec := typ "sigPubKey" (ctag (tag 32 0x8e81278a) (recd [fld "pubkey" bits256]))

def validatorDescrAlts : List Alt :=
  [(tag 8 0x53, "validator", recd [fld "public_key" sigPubKey, fld "weight" (uint 64)]),
          (tag 8 0x73, "validator_addr", recd [fld "public_key" sigPubKey, fld "weight" (uint 64), fld "adnl_addr" bits256])]
def validatorDescr : Codec := typ "validatorDescr" (tagged (validatorDescrAlts))

def validatorSetAlts : List Alt :=
  [
    (tag 8 0x11, "validators", recd [fld "utime_since" (uint 32), fld "utime_until" (uint 32),
      fld "total" (withGen (uint 16) (uintRange 16 1 65535).gen),
      dep "main" (fun e => uintRange 16 1 (e.nat "total")),
      fld "list" (hashmap 16 validatorDescr)]),
    (tag 8 0x12, "validators_ext", recd [fld "utime_since" (uint 32), fld "utime_until" (uint 32),
      fld "total" (withGen (uint 16) (uintRange 16 1 65535).gen),
      dep "main" (fun e => uintRange 16 1 (e.nat "total")),
      fld "total_weight" (uint 64), fld "list" (hashmapE 16 validatorDescr)])]
def validatorSet : Codec := typ "validatorSet" (tagged (validatorSetAlts))

def catchainConfigAlts : List Alt :=
  [
    (tag 8 0xc1, "catchain_config", recd [fld "mc_catchain_lifetime" (uint 32), fld "shard_catchain_lifetime" (uint 32),
      fld "shard_validators_lifetime" (uint 32), fld "shard_validators_num" (uint 32)]),
    (tag 8 0xc2, "catchain_config_new", recd [fld "flags" (uintRange 7 0 0), fld "shuffle_mc_validators" boolC,
      fld "mc_catchain_lifetime" (uint 32), fld "shard_catchain_lifetime" (uint 32),
      fld "shard_validators_lifetime" (uint 32), fld "shard_validators_num" (uint 32)])]
def catchainConfig : Codec := typ "catchainConfig" (tagged (catchainConfigAlts))

def consensusTail : List Field :=
  [fld "next_candidate_delay_ms" (uint 32), fld "consensus_timeout_ms" (uint 32), fld "fast_attempts" (uint 32),
   fld "attempt_duration" (uint 32), fld "catchain_max_deps" (uint 32), fld "max_block_bytes" (uint 32),
   fld "max_collated_bytes" (uint 32)]

def consensusNewHead : List Field :=
  [fld "flags" (uintRange 7 0 0), fld "new_catchain_ids" boolC, fld "round_candidates" (uintRange 8 1 255)]

def consensusConfigAlts : List Alt :=
  [
    (tag 8 0xd6, "consensus_config", recd (fld "round_candidates" (uintRange 32 1 (2 ^ 32 - 1)) :: consensusTail)),
    (tag 8 0xd7, "consensus_config_new", recd (consensusNewHead ++ consensusTail)),
    (tag 8 0xd8, "consensus_config_v3", recd (consensusNewHead ++ consensusTail ++ [fld "proto_version" (uint 16)])),
    (tag 8 0xd9, "consensus_config_v4", recd (consensusNewHead ++ consensusTail ++
      [fld "proto_version" (uint 16), fld "catchain_max_blocks_coeff" (uint 32)]))]
def consensusConfig : Codec := typ "consensusConfig" (tagged (consensusConfigAlts))

/-! ### masterchain extras -/

def validatorInfo : Codec := typ "validatorInfo" (
  recd [fld "validator_list_hash_short" (uint 32), fld "catchain_seqno" (uint 32), fld "nx_cc_updated" boolC])

def keyExtBlkRef : Codec := typ "keyExtBlkRef" (recd [fld "key" boolC, fld "blk_ref" extBlkRef])
def keyMaxLt : Codec := typ "keyMaxLt" (recd [fld "key" boolC, fld "max_end_lt" (uint 64)])
def oldMcBlocksInfo : Codec := typ "oldMcBlocksInfo" (hashmapAugE 32 keyExtBlkRef keyMaxLt)

def counters : Codec := typ "counters" (
  recd [fld "last_updated" (uint 32), fld "total" (uint 64), fld "cnt2048" (uint 64), fld "cnt65536" (uint 64)])
def creatorStats : Codec := typ "creatorStats" (ctag (tag 4 4) (recd [fld "mc_blocks" counters, fld "shard_blocks" counters]))

def blockCreateStatsAlts : List Alt :=
  [(tag 8 0x17, "block_create_stats", recd [fld "counters" (hashmapE 256 creatorStats)]),
          (tag 8 0x34, "block_create_stats_ext", recd [fld "counters" (hashmapAugE 256 creatorStats (uint 32))])]
def blockCreateStats : Codec := typ "blockCreateStats" (tagged (blockCreateStatsAlts))

/-- `_ config_addr:bits256 config:^(Hashmap 32 ^Cell) = ConfigParams` -/
def configParams : Codec := typ "configParams" (recd [fld "config_addr" bits256, fld "config" (ref (hashmap 32 cellRef))])

def mcStateExtra : Codec := typ "mcStateExtra" (
  ctag (tag 16 0xcc26) (recd [fld "shard_hashes" shardHashes, fld "config" configParams,
    fld "_ref1" (ref (recd [fld "flags" (uintRange 16 0 1), fld "validator_info" validatorInfo,
      fld "prev_blocks" oldMcBlocksInfo, fld "after_key_block" boolC, fld "last_key_block" (maybe extBlkRef),
      dep "block_create_stats" (fun e => if e.nat "flags" % 2 = 1 then blockCreateStats else nothing)])),
    fld "global_balance" currencyCollection]))

def shardFeeCreated : Codec := typ "shardFeeCreated" (recd [fld "fees" currencyCollection, fld "create" currencyCollection])
/-- `_ (HashmapAugE 96 ShardFeeCreated ShardFeeCreated) = ShardFees` -/
def shardFees : Codec := typ "shardFees" (hashmapAugE 96 shardFeeCreated shardFeeCreated)

/-- `sig_pair$_ node_id_short:bits256 sign:CryptoSignature` with `ed25519_signature#5 R:bits256 s:bits256`
    (the `chained_signature#f` form is not transcribed) -/
def cryptoSignaturePair : Codec := typ "cryptoSignaturePair" (
  recd [fld "node_id_short" bits256, fld "sign" (ctag (tag 4 5) (recd [fld "R" bits256, fld "s" bits256]))])

/-- `masterchain_block_extra#cca5`; the two `^InMsg` are kept at cell level (the parser keeps them as cells) -/
def mcBlockExtra : Codec := typ "mcBlockExtra" (
  ctag (tag 16 0xcca5) (recd [fld "key_block" (uint 1), fld "shard_hashes" shardHashes,
    fld "shard_fees" shardFees,
    fld "_ref1" (ref (recd [fld "prev_blk_signatures" (hashmapE 16 cryptoSignaturePair), fld "recover_create_msg" (maybe cellRef),
      fld "mint_msg" (maybe cellRef)])),
    dep "config" (fun e => if e.nat "key_block" = 1 then configParams else nothing)]))

def blockExtra : Codec := typ "blockExtra" (
  ctag (tag 32 0x4a33f6fd) (recd [fld "in_msg_descr" (ref inMsgDescr), fld "out_msg_descr" (ref outMsgDescr),
    fld "account_blocks" (ref shardAccountBlocks), fld "rand_seed" bits256, fld "created_by" bits256,
    fld "custom" (maybe (ref mcBlockExtra))]))

/-- `block#11ef55aa`; the Merkle update of the state is an opaque (exotic) cell here -/
def block : Codec := typ "block" (
  ctag (tag 32 0x11ef55aa) (recd [fld "global_id" (sint 32), fld "info" (ref blockInfo), fld "value_flow" (ref valueFlow),
    fld "state_update" cellRef, fld "extra" (ref blockExtra)]))

/-! ### shard state -/

/-- `shared_lib_descr$00 lib:^Cell publishers:(Hashmap 256 True)` -/
def libDescr : Codec := typ "libDescr" (ctag (tag 2 0) (recd [fld "lib" cellRef, fld "publishers" (hashmap 256 nothing)]))

/-- the fields of `shard_state#9023afe2` (OutMsgQueueInfo is kept as an opaque cell, as the parser does) -/
def shardStateUnsplitBody : Codec := typ "shardStateUnsplitBody" (
  recd [fld "global_id" (sint 32), fld "shard_id" shardIdent, fld "seq_no" (uint 32), fld "vert_seq_no" (uint 32),
    fld "gen_utime" (uint 32), fld "gen_lt" (uint 64), fld "min_ref_mc_seqno" (uint 32), fld "out_msg_queue_info" cellRef,
    fld "before_split" (uint 1), fld "accounts" (ref shardAccounts),
    fld "_ref1" (ref (recd [fld "overload_history" (uint 64), fld "underload_history" (uint 64),
      fld "total_balance" currencyCollection, fld "total_validator_fees" currencyCollection,
      fld "libraries" (hashmapE 256 libDescr), fld "master_ref" (maybe blkMasterInfo)])),
    fld "custom" (maybe (ref mcStateExtra))])

def shardStateUnsplit : Codec := typ "shardStateUnsplit" (ctag (tag 32 0x9023afe2) shardStateUnsplitBody)

def shardStateAlts : List Alt :=
  [(tag 32 0x9023afe2, "_", shardStateUnsplitBody),
   (tag 32 0x5f327da5, "split_state", recd [fld "left" (ref shardStateUnsplit), fld "right" (ref shardStateUnsplit)])]
def shardState : Codec := typ "shardState" (tagged shardStateAlts)

/-- the constructor tags of every `tagged` type above (and of the generic Hashmap / BinTree types) -/
def allTagLists : List (String × List Bits) := [
  ("msgAddressExt", altTags (msgAddressExtAlts)),
  ("msgAddressInt", altTags (msgAddressIntAlts)),
  ("commonMsgInfo", altTags (commonMsgInfoAlts)),
  ("accountStatus", altTags (accountStatusAlts)),
  ("accountState", altTags (accountStateAlts)),
  ("account", altTags (accountAlts)),
  ("accStatusChange", altTags (accStatusChangeAlts)),
  ("computeSkipReason", altTags (computeSkipReasonAlts)),
  ("trComputePhase", altTags (trComputePhaseAlts)),
  ("trBouncePhase", altTags (trBouncePhaseAlts)),
  ("transactionDescrF", altTags (transactionDescrFAlts failC)),
  ("intermediateAddress", altTags (intermediateAddressAlts)),
  ("msgEnvelope", altTags (msgEnvelopeAlts)),
  ("inMsg", altTags (inMsgAlts)),
  ("outMsg", altTags (outMsgAlts)),
  ("valueFlow", altTags (valueFlowAlts)),
  ("futureSplitMerge", altTags (futureSplitMergeAlts)),
  ("shardDescr", altTags (shardDescrAlts)),
  ("validatorDescr", altTags (validatorDescrAlts)),
  ("validatorSet", altTags (validatorSetAlts)),
  ("catchainConfig", altTags (catchainConfigAlts)),
  ("consensusConfig", altTags (consensusConfigAlts)),
  ("blockCreateStats", altTags (blockCreateStatsAlts)),
  ("shardState", altTags shardStateAlts),
  ("HmLabel", [[false], [true, false], [true, true]]),
  ("HashmapE/HashmapAugE/BinTree", [[false], [true]])]

end TonVerif.Tlb
