/-
C16 source tie, second part — DECLARED INTERFACE for the classes of tlb/transaction.py (continuing Spec/Tlb/PyView.lean): which
schema field of the block.tlb value arrives in which constructor argument of the object the parser returns.  Written by hand
from the schema and the constructor signatures; nothing here is generated from the Python source.

Also here (spec side, no Python): names for the record bodies of the seven `TransactionDescr` constructors (the library has one
parser class per constructor; Spec/Tlb/Block.lean has them inline in `transactionDescrFAlts`; `transactionDescrFAlts_eq` shows the
named bodies ARE those), `Val.noVar` (no `addr_var` address occurs in a value: the library's `load_address` has no `addr_var`),
and `flattenF` (the entries of a Patricia-tree VALUE of `Hashmap n X`, left to right = ascending key order).
-/
import TonVerif.Model.TlbRdTx
import TonVerif.Spec.Tlb.PyView

namespace TonVerif.Tlb
open TonVerif

/-! ### no `addr_var` inside a value -/

mutual
/-- no `addr_var` constructor occurs in the value -/
def Val.noVar : Val → Bool
  | .con n v => n != "addr_var" && v.noVar
  | .record fs => noVarFs fs
  | _ => true
def noVarFs : List (String × Val) → Bool
  | [] => true
  | (_, v) :: r => v.noVar && noVarFs r
end

/-! ### dictionaries: the entries of a `Hashmap n X` value -/

/-- entries `(key bits, view of the leaf value)` of the tree value `tv` of `hashmapF X fuel n`, keys prefixed by `pfx` -/
def flattenF (w : Val → Val) : Nat → Nat → Bits → Val → List (Bits × Val)
  | 0, _, _, _ => []
  | fuel+1, n, pfx, tv =>
    let lv := tv.get "label"
    let nv := tv.get "node"
    let l := labelLen lv
    let key := pfx ++ Rd.labelBitsOf lv
    if n - l = 0 then [(key, w nv)]
    else flattenF w fuel (n - l - 1) (key ++ [false]) (nv.get "left") ++ flattenF w fuel (n - l - 1) (key ++ [true]) (nv.get "right")

/-- `HashmapE n X` as returned by `load_dict`: `None` (empty) or the dict -/
def viewDict (w : Val → Val) (n : Nat) : Val → Val
  | .con "hme_root" t => Rd.dict (flattenF w (n + 1) n [] t)
  | _ => .unit

/-- `[d[i] for i in sorted(d)]` / `[]` of it -/
def viewDictValues (w : Val → Val) (n : Nat) : Val → Val
  | .con "hme_root" t => Rd.list ((flattenF w (n + 1) n [] t).map (·.2))
  | _ => Rd.list []

namespace Tx

/-! ### addresses (`Slice.load_address`) -/

/-- a bit string read with `load_uint` -/
def bitsInt : Val → Val
  | .bits b => .int (natOfBits b)
  | v => v

def view_Anycast (v : Val) : Val :=
  Rd.obj "Anycast" [("depth", v.get "depth"), ("rewrite_pfx", bitsInt (v.get "rewrite_pfx"))]

/-- `addr_none` is `None` -/
def view_MsgAddressExt : Val → Val
  | .con "addr_extern" x =>
    Rd.obj "ExternalAddress" [("external_address", bitsInt (x.get "external_address")), ("len", x.get "len")]
  | _ => .unit

/-- `addr_std` (the library has no `addr_var`) -/
def view_MsgAddressInt : Val → Val
  | .con "addr_std" x =>
    Rd.obj "Address" [("wc", x.get "workchain_id"), ("hash_part", x.get "address"),
                      ("anycast", viewMaybe view_Anycast (x.get "anycast"))]
  | _ => .unit

/-! ### currencies -/

def view_ExtraCurrencyCollection (v : Val) : Val :=
  Rd.obj "ExtraCurrencyCollection" [("dict_", viewDict id 32 (v.get "dict"))]

def view_CurrencyCollection (v : Val) : Val :=
  Rd.obj "CurrencyCollection" [("grams", v.get "grams"), ("other", view_ExtraCurrencyCollection (v.get "other"))]

def view_ImportFees (v : Val) : Val :=
  Rd.obj "ImportFees" [("fees_collected", v.get "fees_collected"),
                       ("value_imported", view_CurrencyCollection (v.get "value_imported"))]

def view_TrCreditPhase (v : Val) : Val :=
  Rd.obj "TrCreditPhase" [("due_fees_collected", v.get "due_fees_collected"), ("credit", view_CurrencyCollection (v.get "credit"))]

/-! ### the three message-info constructors: named record bodies (the library has one parser class per constructor, each
    reading its own tag) -/

def intMsgInfo : Codec := recd [fld "ihr_disabled" boolC, fld "bounce" boolC, fld "bounced" boolC,
  fld "src" msgAddressInt, fld "dest" msgAddressInt, fld "value" currencyCollection,
  fld "ihr_fee" grams, fld "fwd_fee" grams, fld "created_lt" (uint 64), fld "created_at" (uint 32)]
def extInMsgInfo : Codec := recd [fld "src" msgAddressExt, fld "dest" msgAddressInt, fld "import_fee" grams]
def extOutMsgInfo : Codec := recd [fld "src" msgAddressInt, fld "dest" msgAddressExt,
  fld "created_lt" (uint 64), fld "created_at" (uint 32)]

/-- the named bodies are the constructor bodies of `CommonMsgInfo` in Spec/Tlb/Block.lean -/
theorem commonMsgInfoAlts_eq : commonMsgInfoAlts =
    [(tag 1 0, "int_msg_info", intMsgInfo), (tag 2 2, "ext_in_msg_info", extInMsgInfo),
     (tag 2 3, "ext_out_msg_info", extOutMsgInfo)] := rfl

/-! ### messages -/

def view_InternalMsgInfo (x : Val) : Val :=
  Rd.obj "InternalMsgInfo" [("ihr_disabled", x.get "ihr_disabled"), ("bounce", x.get "bounce"), ("bounced", x.get "bounced"),
    ("src", view_MsgAddressInt (x.get "src")), ("dest", view_MsgAddressInt (x.get "dest")),
    ("value", view_CurrencyCollection (x.get "value")), ("ihr_fee", x.get "ihr_fee"), ("fwd_fee", x.get "fwd_fee"),
    ("created_lt", x.get "created_lt"), ("created_at", x.get "created_at")]

def view_ExternalMsgInfo (x : Val) : Val :=
  Rd.obj "ExternalMsgInfo" [("src", view_MsgAddressExt (x.get "src")), ("dest", view_MsgAddressInt (x.get "dest")),
    ("import_fee", x.get "import_fee")]

def view_ExternalOutMsgInfo (x : Val) : Val :=
  Rd.obj "ExternalOutMsgInfo" [("src", view_MsgAddressInt (x.get "src")), ("dest", view_MsgAddressExt (x.get "dest")),
    ("created_lt", x.get "created_lt"), ("created_at", x.get "created_at")]

/-- the constructor is reported by the CLASS of the returned object -/
def view_CommonMsgInfo : Val → Val
  | .con "int_msg_info" x => view_InternalMsgInfo x
  | .con "ext_in_msg_info" x => view_ExternalMsgInfo x
  | .con "ext_out_msg_info" x => view_ExternalOutMsgInfo x
  | _ => .unit

/-- `init:(Maybe (Either StateInit ^StateInit))` : `None` or the StateInit, inline or by reference alike -/
def viewInit : Val → Val
  | .con "left" x => view_StateInit x
  | .con "right" x => view_StateInit x
  | _ => .unit

/-- `body:(Either X ^X)` : the cell, inline (rest of the slice as a cell) or by reference alike -/
def viewBody : Val → Val
  | .con "left" c => c
  | .con "right" c => c
  | _ => .unit

def view_Message (v : Val) : Val :=
  Rd.obj "MessageAny" [("info", view_CommonMsgInfo (v.get "info")), ("init", viewInit (v.get "init")),
                       ("body", viewBody (v.get "body"))]

def view_MsgMetadata (v : Val) : Val :=
  Rd.obj "MsgMetadata" [("depth", v.get "depth"), ("initiator_addr", view_MsgAddressInt (v.get "initiator_addr")),
                        ("initiator_lt", v.get "initiator_lt")]

/-- `msg_envelope#4` has no `emitted_lt` / `metadata`: `None` -/
def view_MsgEnvelope : Val → Val
  | .con "msg_envelope" x =>
    Rd.obj "MsgEnvelope" [("type_", Rd.str "msg_envelope"), ("cur_addr", view_IntermediateAddress (x.get "cur_addr")),
      ("next_addr", view_IntermediateAddress (x.get "next_addr")), ("fwd_fee_remaining", x.get "fwd_fee_remaining"),
      ("msg", view_Message (x.get "msg")), ("emitted_lt", .unit), ("metadata", .unit)]
  | .con "msg_envelope_v2" x =>
    Rd.obj "MsgEnvelope" [("type_", Rd.str "msg_envelope_v2"), ("cur_addr", view_IntermediateAddress (x.get "cur_addr")),
      ("next_addr", view_IntermediateAddress (x.get "next_addr")), ("fwd_fee_remaining", x.get "fwd_fee_remaining"),
      ("msg", view_Message (x.get "msg")), ("emitted_lt", x.get "emitted_lt"),
      ("metadata", viewMaybe view_MsgMetadata (x.get "metadata"))]
  | _ => .unit

/-! ### the seven transaction descriptions: named record bodies and their views -/

def transOrd : Codec := recd [fld "credit_first" boolC, fld "storage_ph" (maybe trStoragePhase),
  fld "credit_ph" (maybe trCreditPhase), fld "compute_ph" trComputePhase, fld "action" (maybe (ref trActionPhase)),
  fld "aborted" boolC, fld "bounce" (maybe trBouncePhase), fld "destroyed" boolC]
def transStorage : Codec := recd [fld "storage_ph" trStoragePhase]
def transTickTock : Codec := recd [fld "is_tock" boolC, fld "storage_ph" trStoragePhase,
  fld "compute_ph" trComputePhase, fld "action" (maybe (ref trActionPhase)), fld "aborted" boolC, fld "destroyed" boolC]
def transSplitPrepare : Codec := recd [fld "split_info" splitMergeInfo, fld "storage_ph" (maybe trStoragePhase),
  fld "compute_ph" trComputePhase, fld "action" (maybe (ref trActionPhase)), fld "aborted" boolC, fld "destroyed" boolC]
def transSplitInstall (tx : Codec) : Codec := recd [fld "split_info" splitMergeInfo, fld "prepare_transaction" (ref tx),
  fld "installed" boolC]
def transMergePrepare : Codec := recd [fld "split_info" splitMergeInfo, fld "storage_ph" trStoragePhase, fld "aborted" boolC]
def transMergeInstall (tx : Codec) : Codec := recd [fld "split_info" splitMergeInfo, fld "prepare_transaction" (ref tx),
  fld "storage_ph" (maybe trStoragePhase), fld "credit_ph" (maybe trCreditPhase), fld "compute_ph" trComputePhase,
  fld "action" (maybe (ref trActionPhase)), fld "aborted" boolC, fld "destroyed" boolC]

/-- the named bodies are the constructor bodies of `TransactionDescr` in Spec/Tlb/Block.lean -/
theorem transactionDescrFAlts_eq (tx : Codec) : transactionDescrFAlts tx =
    [(tag 4 0, "trans_ord", transOrd), (tag 4 1, "trans_storage", transStorage), (tag 3 1, "trans_tick_tock", transTickTock),
     (tag 4 4, "trans_split_prepare", transSplitPrepare), (tag 4 5, "trans_split_install", transSplitInstall tx),
     (tag 4 6, "trans_merge_prepare", transMergePrepare), (tag 4 7, "trans_merge_install", transMergeInstall tx)] := rfl

def view_TransactionOrdinary (x : Val) : Val :=
  Rd.obj "TransactionOrdinary" [("credit_first", x.get "credit_first"),
    ("storage_ph", viewMaybe view_TrStoragePhase (x.get "storage_ph")),
    ("credit_ph", viewMaybe view_TrCreditPhase (x.get "credit_ph")),
    ("compute_ph", view_TrComputePhase (x.get "compute_ph")), ("action", viewMaybe view_TrActionPhase (x.get "action")),
    ("aborted", x.get "aborted"), ("bounce", viewMaybe view_TrBouncePhase (x.get "bounce")), ("destroyed", x.get "destroyed")]

def view_TransactionStorage (x : Val) : Val :=
  Rd.obj "TransactionStorage" [("storage_ph", view_TrStoragePhase (x.get "storage_ph"))]

def view_TransactionTickTock (x : Val) : Val :=
  Rd.obj "TransactionTickTock" [("is_tock", x.get "is_tock"), ("storage_ph", view_TrStoragePhase (x.get "storage_ph")),
    ("compute_ph", view_TrComputePhase (x.get "compute_ph")), ("action", viewMaybe view_TrActionPhase (x.get "action")),
    ("aborted", x.get "aborted"), ("destroyed", x.get "destroyed")]

def view_TransactionSplitPrepare (x : Val) : Val :=
  Rd.obj "TransactionSplitPrepare" [("split_info", view_SplitMergeInfo (x.get "split_info")),
    ("storage_ph", viewMaybe view_TrStoragePhase (x.get "storage_ph")),
    ("compute_ph", view_TrComputePhase (x.get "compute_ph")), ("action", viewMaybe view_TrActionPhase (x.get "action")),
    ("aborted", x.get "aborted"), ("destroyed", x.get "destroyed")]

def view_TransactionSplitInstall (vtx : Val → Val) (x : Val) : Val :=
  Rd.obj "TransactionSplitInstall" [("split_info", view_SplitMergeInfo (x.get "split_info")),
    ("prepare_transaction", vtx (x.get "prepare_transaction")), ("installed", x.get "installed")]

def view_TransactionMergePrepare (x : Val) : Val :=
  Rd.obj "TransactionMergePrepare" [("split_info", view_SplitMergeInfo (x.get "split_info")),
    ("storage_ph", view_TrStoragePhase (x.get "storage_ph")), ("aborted", x.get "aborted")]

def view_TransactionMergeInstall (vtx : Val → Val) (x : Val) : Val :=
  Rd.obj "TransactionMergeInstall" [("split_info", view_SplitMergeInfo (x.get "split_info")),
    ("prepare_transaction", vtx (x.get "prepare_transaction")),
    ("storage_ph", viewMaybe view_TrStoragePhase (x.get "storage_ph")),
    ("credit_ph", viewMaybe view_TrCreditPhase (x.get "credit_ph")),
    ("compute_ph", view_TrComputePhase (x.get "compute_ph")), ("action", viewMaybe view_TrActionPhase (x.get "action")),
    ("aborted", x.get "aborted"), ("destroyed", x.get "destroyed")]

/-- `TransactionDescr.deserialize` returns the object of the constructor's own class; `vtx` = view of a nested Transaction -/
def view_TransactionDescr (vtx : Val → Val) : Val → Val
  | .con "trans_ord" x => view_TransactionOrdinary x
  | .con "trans_storage" x => view_TransactionStorage x
  | .con "trans_tick_tock" x => view_TransactionTickTock x
  | .con "trans_split_prepare" x => view_TransactionSplitPrepare x
  | .con "trans_split_install" x => view_TransactionSplitInstall vtx x
  | .con "trans_merge_prepare" x => view_TransactionMergePrepare x
  | .con "trans_merge_install" x => view_TransactionMergeInstall vtx x
  | _ => .unit

/-- `Transaction` of nesting budget `b`; the fields of the `^[ … ]` group arrive flattened, `out_msgs` as the list of the
    dictionary's values in key order; the bookkeeping argument `cell=` is not part of the object (declared) -/
def view_Transaction : Nat → Val → Val
  | 0, _ => .unit
  | b+1, v =>
    let r := v.get "_ref1"
    Rd.obj "Transaction" [("account_addr", v.get "account_addr"), ("lt", v.get "lt"),
      ("prev_trans_hash", v.get "prev_trans_hash"), ("prev_trans_lt", v.get "prev_trans_lt"), ("now", v.get "now"),
      ("outmsg_cnt", v.get "outmsg_cnt"), ("orig_status", view_AccountStatus (v.get "orig_status")),
      ("end_status", view_AccountStatus (v.get "end_status")), ("in_msg", viewMaybe view_Message (r.get "in_msg")),
      ("out_msgs", viewDictValues view_Message 15 (r.get "out_msgs")),
      ("total_fees", view_CurrencyCollection (v.get "total_fees")), ("state_update", view_HashUpdate (v.get "state_update")),
      ("description", view_TransactionDescr (view_Transaction b) (v.get "description"))]

/-! ### message descriptors -/

/-- `InMsg`; `vtx` = view of a Transaction -/
def view_InMsg (vtx : Val → Val) : Val → Val
  | .con "msg_import_ext" x =>
    Rd.obj "InMsg" [("type_", Rd.str "msg_import_ext"), ("msg", view_Message (x.get "msg")), ("transaction", vtx (x.get "transaction"))]
  | .con "msg_import_ihr" x =>
    Rd.obj "InMsg" [("type_", Rd.str "msg_import_ihr"), ("msg", view_Message (x.get "msg")), ("transaction", vtx (x.get "transaction")),
      ("ihr_fee", x.get "ihr_fee"), ("proof_created", x.get "proof_created")]
  | .con "msg_import_imm" x =>
    Rd.obj "InMsg" [("type_", Rd.str "msg_import_imm"), ("in_msg", view_MsgEnvelope (x.get "in_msg")),
      ("transaction", vtx (x.get "transaction")), ("fwd_fee", x.get "fwd_fee")]
  | .con "msg_import_fin" x =>
    Rd.obj "InMsg" [("type_", Rd.str "msg_import_fin"), ("in_msg", view_MsgEnvelope (x.get "in_msg")),
      ("transaction", vtx (x.get "transaction")), ("fwd_fee", x.get "fwd_fee")]
  | .con "msg_import_tr" x =>
    Rd.obj "InMsg" [("type_", Rd.str "msg_import_tr"), ("in_msg", view_MsgEnvelope (x.get "in_msg")),
      ("out_msg", view_MsgEnvelope (x.get "out_msg")), ("transit_fee", x.get "transit_fee")]
  | .con "msg_discard_fin" x =>
    Rd.obj "InMsg" [("type_", Rd.str "msg_discard_fin"), ("in_msg", view_MsgEnvelope (x.get "in_msg")),
      ("transaction_id", x.get "transaction_id"), ("fwd_fee", x.get "fwd_fee")]
  | .con "msg_discard_tr" x =>
    Rd.obj "InMsg" [("type_", Rd.str "msg_discard_tr"), ("in_msg", view_MsgEnvelope (x.get "in_msg")),
      ("transaction_id", x.get "transaction_id"), ("fwd_fee", x.get "fwd_fee"), ("proof_delivered", x.get "proof_delivered")]
  | .con "msg_import_deferred_fin" x =>
    Rd.obj "InMsg" [("type_", Rd.str "msg_import_deferred_fin"), ("in_msg", view_MsgEnvelope (x.get "in_msg")),
      ("transaction", vtx (x.get "transaction")), ("fwd_fee", x.get "fwd_fee")]
  | .con "msg_import_deferred_tr" x =>
    Rd.obj "InMsg" [("type_", Rd.str "msg_import_deferred_tr"), ("in_msg", view_MsgEnvelope (x.get "in_msg")),
      ("out_msg", view_MsgEnvelope (x.get "out_msg"))]
  | _ => .unit

/-- `OutMsg`; `vtx` = view of a Transaction -/
def view_OutMsg (vtx : Val → Val) : Val → Val
  | .con "msg_export_ext" x =>
    Rd.obj "OutMsg" [("type_", Rd.str "msg_export_ext"), ("msg", view_Message (x.get "msg")), ("transaction", vtx (x.get "transaction"))]
  | .con "msg_export_imm" x =>
    Rd.obj "OutMsg" [("type_", Rd.str "msg_export_imm"), ("out_msg", view_MsgEnvelope (x.get "out_msg")),
      ("transaction", vtx (x.get "transaction")), ("reimport", view_InMsg vtx (x.get "reimport"))]
  | .con "msg_export_new" x =>
    Rd.obj "OutMsg" [("type_", Rd.str "msg_export_new"), ("out_msg", view_MsgEnvelope (x.get "out_msg")),
      ("transaction", vtx (x.get "transaction"))]
  | .con "msg_export_tr" x =>
    Rd.obj "OutMsg" [("type_", Rd.str "msg_export_tr"), ("out_msg", view_MsgEnvelope (x.get "out_msg")),
      ("imported", view_InMsg vtx (x.get "imported"))]
  | .con "msg_export_deq" x =>
    Rd.obj "OutMsg" [("type_", Rd.str "msg_export_deq"), ("out_msg", view_MsgEnvelope (x.get "out_msg")),
      ("import_block_lt", x.get "import_block_lt")]
  | .con "msg_export_deq_short" x =>
    Rd.obj "OutMsg" [("type_", Rd.str "msg_export_deq_short"), ("msg_env_hash", x.get "msg_env_hash"),
      ("next_workchain", x.get "next_workchain"), ("next_addr_pfx", x.get "next_addr_pfx"),
      ("import_block_lt", x.get "import_block_lt")]
  | .con "msg_export_tr_req" x =>
    Rd.obj "OutMsg" [("type_", Rd.str "msg_export_tr_req"), ("out_msg", view_MsgEnvelope (x.get "out_msg")),
      ("imported", view_InMsg vtx (x.get "imported"))]
  | .con "msg_export_deq_imm" x =>
    Rd.obj "OutMsg" [("type_", Rd.str "msg_export_deq_imm"), ("out_msg", view_MsgEnvelope (x.get "out_msg")),
      ("reimport", view_InMsg vtx (x.get "reimport"))]
  | .con "msg_export_new_defer" x =>
    Rd.obj "OutMsg" [("type_", Rd.str "msg_export_new_defer"), ("out_msg", view_MsgEnvelope (x.get "out_msg")),
      ("transaction", vtx (x.get "transaction"))]
  | .con "msg_export_deferred_tr" x =>
    Rd.obj "OutMsg" [("type_", Rd.str "msg_export_deferred_tr"), ("out_msg", view_MsgEnvelope (x.get "out_msg")),
      ("imported", view_InMsg vtx (x.get "imported"))]
  | _ => .unit

/-- a concrete transaction (`trans_storage` description, no messages, 5 nanograms of fees) -/
def exampleTransaction : Val := .record [
  ("account_addr", .bits (List.replicate 256 false)), ("lt", .int 7), ("prev_trans_hash", .bits (List.replicate 256 true)),
  ("prev_trans_lt", .int 6), ("now", .int 1700000000), ("outmsg_cnt", .int 0),
  ("orig_status", .con "acc_state_active" .unit), ("end_status", .con "acc_state_active" .unit),
  ("_ref1", .record [("in_msg", .unit), ("out_msgs", .con "hme_empty" .unit)]),
  ("total_fees", .record [("grams", .int 5), ("other", .record [("dict", .con "hme_empty" .unit)])]),
  ("state_update", .record [("old_hash", .bits (List.replicate 256 false)), ("new_hash", .bits (List.replicate 256 true))]),
  ("description", .con "trans_storage" (.record [("storage_ph", .record [("storage_fees_collected", .int 5),
      ("storage_fees_due", .unit), ("status_change", .con "acst_unchanged" .unit)])]))]


end Tx
end TonVerif.Tlb
