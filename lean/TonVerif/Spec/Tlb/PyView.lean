/-
C16 source tie — the DECLARED INTERFACE between a block.tlb value (the `Val` of the spec codec, Spec/Tlb/Block.lean) and
the object the library's parser returns for it (Model/TlbRd.lean: `Rd.obj "<Class>" [(constructor argument, value) …]`,
`None` = `.unit`, `'name'` = `Rd.str "name"`, `bytes.hex()` = `Rd.hex`).

One `view_<Class>` per parser class, written by hand from the schema and the class's constructor signature: it says which
schema field must arrive in which constructor argument (attribute renamings such as `seq_no ↦ seqno`, `_ ↦ state_init`),
how constructor alternatives are reported (`type_` strings, `None`, or the class of the object), that the fields of an
anonymous `^[ … ]` group arrive flattened, and which arguments are `None` for a constructor that has no such field.
The `c16_src_*` theorems are stated with these views; nothing here is generated from the Python source.
-/
import TonVerif.Model.TlbRd
import TonVerif.Spec.Tlb.Block

namespace TonVerif.Tlb
open TonVerif

/-- field `n` of a record value -/
def Val.get : Val → String → Val
  | .record fs, n => (fs.lookup n).getD .unit
  | _, _ => .unit

/-- `Maybe X` : `None` or the view of the X -/
def viewMaybe (w : Val → Val) : Val → Val
  | .unit => .unit
  | v => w v

def view_HashUpdate (v : Val) : Val :=
  Rd.obj "HashUpdate" [("old_hash", v.get "old_hash"), ("new_hash", v.get "new_hash")]

def view_TickTock (v : Val) : Val := Rd.obj "TickTock" [("tick", v.get "tick"), ("tock", v.get "tock")]

def view_StorageUsed (v : Val) : Val :=
  Rd.obj "StorageUsed" [("cells", v.get "cells"), ("bits", v.get "bits"), ("public_cells", v.get "public_cells")]

def view_StorageUsedShort (v : Val) : Val := Rd.obj "StorageUsedShort" [("cells", v.get "cells"), ("bits", v.get "bits")]

def view_StorageInfo (v : Val) : Val :=
  Rd.obj "StorageInfo" [("used", view_StorageUsed (v.get "used")), ("last_paid", v.get "last_paid"),
                        ("due_payment", v.get "due_payment")]

def view_AccountStatus : Val → Val
  | .con "acc_state_uninit" _ => Rd.obj "AccountStatus" [("type_", Rd.str "uninitialized")]
  | .con "acc_state_frozen" _ => Rd.obj "AccountStatus" [("type_", Rd.str "frozen")]
  | .con "acc_state_active" _ => Rd.obj "AccountStatus" [("type_", Rd.str "active")]
  | .con "acc_state_nonexist" _ => Rd.obj "AccountStatus" [("type_", Rd.str "nonexist")]
  | _ => .unit

def view_StateInit (v : Val) : Val :=
  Rd.obj "StateInit" [("split_depth", v.get "split_depth"), ("special", viewMaybe view_TickTock (v.get "special")),
                      ("code", v.get "code"), ("data", v.get "data"), ("library", v.get "library")]

def view_AccountState : Val → Val
  | .con "account_uninit" _ => Rd.obj "AccountState" [("type_", Rd.str "account_uninit")]
  | .con "account_active" x => Rd.obj "AccountState" [("type_", Rd.str "account_active"), ("state_init", view_StateInit (x.get "_"))]
  | .con "account_frozen" x => Rd.obj "AccountState" [("type_", Rd.str "account_frozen"), ("state_hash", Rd.hex (x.get "state_hash"))]
  | _ => .unit

def view_ExtBlkRef (v : Val) : Val :=
  Rd.obj "ExtBlkRef" [("end_lt", v.get "end_lt"), ("seqno", v.get "seq_no"), ("root_hash", v.get "root_hash"),
                      ("file_hash", v.get "file_hash")]

def view_BlkMasterInfo (v : Val) : Val := Rd.obj "BlkMasterInfo" [("master", view_ExtBlkRef (v.get "master"))]

def view_KeyExtBlkRef (v : Val) : Val :=
  Rd.obj "KeyExtBlkRef" [("key", v.get "key"), ("blk_ref", view_ExtBlkRef (v.get "blk_ref"))]

def view_KeyMaxLt (v : Val) : Val := Rd.obj "KeyMaxLt" [("key", v.get "key"), ("max_end_lt", v.get "max_end_lt")]

def view_Counters (v : Val) : Val :=
  Rd.obj "Counters" [("last_updated", v.get "last_updated"), ("total", v.get "total"), ("cnt2048", v.get "cnt2048"),
                     ("cnt65536", v.get "cnt65536")]

def view_CreatorStats (v : Val) : Val :=
  Rd.obj "CreatorStats" [("mc_blocks", view_Counters (v.get "mc_blocks")), ("shard_blocks", view_Counters (v.get "shard_blocks"))]

def view_ValidatorInfo (v : Val) : Val :=
  Rd.obj "ValidatorInfo" [("validator_list_hash_short", v.get "validator_list_hash_short"),
                          ("catchain_seqno", v.get "catchain_seqno"), ("nx_cc_updated", v.get "nx_cc_updated")]

def view_ShardIdent (v : Val) : Val :=
  Rd.obj "ShardIdent" [("shard_pfx_bits", v.get "shard_pfx_bits"), ("workchain_id", v.get "workchain_id"),
                       ("shard_prefix", v.get "shard_prefix")]

def view_GlobalVersion (v : Val) : Val :=
  Rd.obj "GlobalVersion" [("version", v.get "version"), ("capabilities", v.get "capabilities")]

def view_SplitMergeInfo (v : Val) : Val :=
  Rd.obj "SplitMergeInfo" [("cur_shard_pfx_len", v.get "cur_shard_pfx_len"), ("acc_split_depth", v.get "acc_split_depth"),
                           ("this_addr", v.get "this_addr"), ("sibling_addr", v.get "sibling_addr")]

def view_SigPubKey (v : Val) : Val := Rd.obj "SigPubKey" [("pubkey", v.get "pubkey")]

def view_AccStatusChange : Val → Val
  | .con "acst_unchanged" _ => Rd.obj "AccStatusChange" [("type_", Rd.str "unchanged")]
  | .con "acst_frozen" _ => Rd.obj "AccStatusChange" [("type_", Rd.str "frozen")]
  | .con "acst_deleted" _ => Rd.obj "AccStatusChange" [("type_", Rd.str "deleted")]
  | _ => .unit

def view_ComputeSkipReason : Val → Val
  | .con "cskip_no_state" _ => Rd.obj "ComputeSkipReason" [("type_", Rd.str "no_state")]
  | .con "cskip_bad_state" _ => Rd.obj "ComputeSkipReason" [("type_", Rd.str "bad_state")]
  | .con "cskip_no_gas" _ => Rd.obj "ComputeSkipReason" [("type_", Rd.str "no_gas")]
  | .con "cskip_suspended" _ => Rd.obj "ComputeSkipReason" [("type_", Rd.str "suspended")]
  | _ => .unit

def view_TrStoragePhase (v : Val) : Val :=
  Rd.obj "TrStoragePhase" [("storage_fees_collected", v.get "storage_fees_collected"),
    ("storage_fees_due", v.get "storage_fees_due"), ("status_change", view_AccStatusChange (v.get "status_change"))]

/-- `tr_phase_compute_vm`: the fields of the `^[ … ]` group arrive flattened; `reason` is `None` -/
def view_TrComputePhase : Val → Val
  | .con "tr_phase_compute_skipped" x =>
    Rd.obj "TrComputePhase" [("type_", Rd.str "skipped"), ("reason", view_ComputeSkipReason (x.get "reason"))]
  | .con "tr_phase_compute_vm" x =>
    let r := x.get "_ref1"
    Rd.obj "TrComputePhase" [("type_", Rd.str "vm"), ("reason", .unit), ("success", x.get "success"),
      ("msg_state_used", x.get "msg_state_used"), ("account_activated", x.get "account_activated"),
      ("gas_fees", x.get "gas_fees"), ("gas_used", r.get "gas_used"), ("gas_limit", r.get "gas_limit"),
      ("gas_credit", r.get "gas_credit"), ("mode", r.get "mode"), ("exit_code", r.get "exit_code"),
      ("exit_arg", r.get "exit_arg"), ("vm_steps", r.get "vm_steps"),
      ("vm_init_state_hash", r.get "vm_init_state_hash"), ("vm_final_state_hash", r.get "vm_final_state_hash")]
  | _ => .unit

def view_TrActionPhase (v : Val) : Val :=
  Rd.obj "TrActionPhase" [("success", v.get "success"), ("valid", v.get "valid"), ("no_funds", v.get "no_funds"),
    ("status_change", view_AccStatusChange (v.get "status_change")), ("total_fwd_fees", v.get "total_fwd_fees"),
    ("total_action_fees", v.get "total_action_fees"), ("result_code", v.get "result_code"),
    ("result_arg", v.get "result_arg"), ("tot_actions", v.get "tot_actions"), ("spec_actions", v.get "spec_actions"),
    ("skipped_actions", v.get "skipped_actions"), ("msgs_created", v.get "msgs_created"),
    ("action_list_hash", v.get "action_list_hash"), ("tot_msg_size", view_StorageUsedShort (v.get "tot_msg_size"))]

def view_TrBouncePhase : Val → Val
  | .con "tr_phase_bounce_negfunds" _ => Rd.obj "TrBouncePhase" [("type_", Rd.str "negfunds")]
  | .con "tr_phase_bounce_nofunds" x =>
    Rd.obj "TrBouncePhase" [("type_", Rd.str "nofunds"), ("msg_size", view_StorageUsedShort (x.get "msg_size")),
      ("req_fwd_fees", x.get "req_fwd_fees")]
  | .con "tr_phase_bounce_ok" x =>
    Rd.obj "TrBouncePhase" [("type_", Rd.str "ok"), ("msg_size", view_StorageUsedShort (x.get "msg_size")),
      ("msg_fees", x.get "msg_fees"), ("fwd_fees", x.get "fwd_fees")]
  | _ => .unit

/-- `fsm_none` is reported as `None` -/
def view_FutureSplitMerge : Val → Val
  | .con "fsm_none" _ => .unit
  | .con "fsm_split" x =>
    Rd.obj "FutureSplitMerge" [("type_", Rd.str "fsm_split"), ("split_utime", x.get "split_utime"), ("interval", x.get "interval")]
  | .con "fsm_merge" x =>
    Rd.obj "FutureSplitMerge" [("type_", Rd.str "fsm_merge"), ("merge_utime", x.get "merge_utime"), ("interval", x.get "interval")]
  | _ => .unit

def view_IntermediateAddress : Val → Val
  | .con "interm_addr_regular" x =>
    Rd.obj "IntermediateAddress" [("type_", Rd.str "interm_addr_regular"), ("use_dest_bits", x.get "use_dest_bits")]
  | .con "interm_addr_simple" x =>
    Rd.obj "IntermediateAddress" [("type_", Rd.str "interm_addr_simple"), ("workchain_id", x.get "workchain_id"),
      ("addr_pfx", x.get "addr_pfx")]
  | .con "interm_addr_ext" x =>
    Rd.obj "IntermediateAddress" [("type_", Rd.str "interm_addr_ext"), ("workchain_id", x.get "workchain_id"),
      ("addr_pfx", x.get "addr_pfx")]
  | _ => .unit

/-- `validator#53` has no `adnl_addr`: `None` -/
def view_ValidatorDescr : Val → Val
  | .con "validator" x =>
    Rd.obj "ValidatorDescr" [("type_", Rd.str "validator"), ("public_key", view_SigPubKey (x.get "public_key")),
      ("weight", x.get "weight"), ("adnl_addr", .unit)]
  | .con "validator_addr" x =>
    Rd.obj "ValidatorDescr" [("type_", Rd.str "validator_addr"), ("public_key", view_SigPubKey (x.get "public_key")),
      ("weight", x.get "weight"), ("adnl_addr", x.get "adnl_addr")]
  | _ => .unit

/-- `catchain_config_new#c2`: the (zero) `flags` are read and checked but not passed on -/
def view_CatchainConfig : Val → Val
  | .con "catchain_config" x =>
    Rd.obj "CatchainConfig" [("type_", Rd.str "catchain_config"), ("mc_catchain_lifetime", x.get "mc_catchain_lifetime"),
      ("shard_catchain_lifetime", x.get "shard_catchain_lifetime"),
      ("shard_validators_lifetime", x.get "shard_validators_lifetime"), ("shard_validators_num", x.get "shard_validators_num")]
  | .con "catchain_config_new" x =>
    Rd.obj "CatchainConfig" [("type_", Rd.str "catchain_config_new"), ("shuffle_mc_validators", x.get "shuffle_mc_validators"),
      ("mc_catchain_lifetime", x.get "mc_catchain_lifetime"), ("shard_catchain_lifetime", x.get "shard_catchain_lifetime"),
      ("shard_validators_lifetime", x.get "shard_validators_lifetime"), ("shard_validators_num", x.get "shard_validators_num")]
  | _ => .unit

/-- `BlkPrevInfo m` -/
def view_BlkPrevInfo : Val → Val
  | .con "prev_blk_info" x => Rd.obj "BlkPrevInfo" [("type_", Rd.str "prev_blk_info"), ("prev", view_ExtBlkRef (x.get "prev"))]
  | .con "prev_blks_info" x =>
    Rd.obj "BlkPrevInfo" [("type_", Rd.str "prev_blks_info"), ("prev1", view_ExtBlkRef (x.get "prev1")),
      ("prev2", view_ExtBlkRef (x.get "prev2"))]
  | _ => .unit

end TonVerif.Tlb
