/-
C16 source tie — the DECLARED INTERFACE between a block.tlb value (the `Val` of the spec codec, Spec/Tlb/Block.lean) and
the object the library's parser returns for it (Model/TlbRd.lean: `Rd.obj "<Class>" [(constructor argument, value) …]`,
`None` = `.unit`, `'name'` = `Rd.str "name"`, `bytes.hex()` = `Rd.hex`).

One `view_<Class>` per parser class, written by hand from the schema and the class's constructor signature: it says which
schema field must arrive in which constructor argument (attribute renamings such as `seq_no ↦ seqno`, `_ ↦ state_init`),
how constructor alternatives are reported (`type_` strings, `None`, or the class of the object), that the fields of an
anonymous `^[ … ]` group arrive flattened, and which arguments are `None` for a constructor that has no such field.
The `c16_src_*` theorems are stated with these views; nothing here is generated from the Python source.
-/
import TonVerif.Model.TlbRd
import TonVerif.Spec.Tlb.Block

namespace TonVerif.Tlb
open TonVerif

/-- field `n` of a record value -/
def Val.get : Val → String → Val
  | .record fs, n => (fs.lookup n).getD .unit
  | _, _ => .unit

/-- `Maybe X` : `None` or the view of the X -/
def viewMaybe (w : Val → Val) : Val → Val
  | .unit => .unit
  | v => w v

def view_HashUpdate (v : Val) : Val :=
  Rd.obj "HashUpdate" [("old_hash", v.get "old_hash"), ("new_hash", v.get "new_hash")]

def view_TickTock (v : Val) : Val := Rd.obj "TickTock" [("tick", v.get "tick"), ("tock", v.get "tock")]

def view_StorageUsed (v : Val) : Val :=
  Rd.obj "StorageUsed" [("cells", v.get "cells"), ("bits", v.get "bits"), ("public_cells", v.get "public_cells")]

def view_StorageUsedShort (v : Val) : Val := Rd.obj "StorageUsedShort" [("cells", v.get "cells"), ("bits", v.get "bits")]

def view_StorageInfo (v : Val) : Val :=
  Rd.obj "StorageInfo" [("used", view_StorageUsed (v.get "used")), ("last_paid", v.get "last_paid"),
                        ("due_payment", v.get "due_payment")]

def view_AccountStatus : Val → Val
  | .con "acc_state_uninit" _ => Rd.obj "AccountStatus" [("type_", Rd.str "uninitialized")]
  | .con "acc_state_frozen" _ => Rd.obj "AccountStatus" [("type_", Rd.str "frozen")]
  | .con "acc_state_active" _ => Rd.obj "AccountStatus" [("type_", Rd.str "active")]
  | .con "acc_state_nonexist" _ => Rd.obj "AccountStatus" [("type_", Rd.str "nonexist")]
  | _ => .unit

def view_StateInit (v : Val) : Val :=
  Rd.obj "StateInit" [("split_depth", v.get "split_depth"), ("special", viewMaybe view_TickTock (v.get "special")),
                      ("code", v.get "code"), ("data", v.get "data"), ("library", v.get "library")]

def view_AccountState : Val → Val
  | .con "account_uninit" _ => Rd.obj "AccountState" [("type_", Rd.str "account_uninit")]
  | .con "account_active" x => Rd.obj "AccountState" [("type_", Rd.str "account_active"), ("state_init", view_StateInit (x.get "_"))]
  | .con "account_frozen" x => Rd.obj "AccountState" [("type_", Rd.str "account_frozen"), ("state_hash", Rd.hex (x.get "state_hash"))]
  | _ => .unit

def view_ExtBlkRef (v : Val) : Val :=
  Rd.obj "ExtBlkRef" [("end_lt", v.get "end_lt"), ("seqno", v.get "seq_no"), ("root_hash", v.get "root_hash"),
                      ("file_hash", v.get "file_hash")]

def view_BlkMasterInfo (v : Val) : Val := Rd.obj "BlkMasterInfo" [("master", view_ExtBlkRef (v.get "master"))]

def view_KeyExtBlkRef (v : Val) : Val :=
  Rd.obj "KeyExtBlkRef" [("key", v.get "key"), ("blk_ref", view_ExtBlkRef (v.get "blk_ref"))]

def view_KeyMaxLt (v : Val) : Val := Rd.obj "KeyMaxLt" [("key", v.get "key"), ("max_end_lt", v.get "max_end_lt")]

def view_Counters (v : Val) : Val :=
  Rd.obj "Counters" [("last_updated", v.get "last_updated"), ("total", v.get "total"), ("cnt2048", v.get "cnt2048"),
                     ("cnt65536", v.get "cnt65536")]

def view_CreatorStats (v : Val) : Val :=
  Rd.obj "CreatorStats" [("mc_blocks", view_Counters (v.get "mc_blocks")), ("shard_blocks", view_Counters (v.get "shard_blocks"))]

def view_ValidatorInfo (v : Val) : Val :=
  Rd.obj "ValidatorInfo" [("validator_list_hash_short", v.get "validator_list_hash_short"),
                          ("catchain_seqno", v.get "catchain_seqno"), ("nx_cc_updated", v.get "nx_cc_updated")]

def view_ShardIdent (v : Val) : Val :=
  Rd.obj "ShardIdent" [("shard_pfx_bits", v.get "shard_pfx_bits"), ("workchain_id", v.get "workchain_id"),
                       ("shard_prefix", v.get "shard_prefix")]

def view_GlobalVersion (v : Val) : Val :=
  Rd.obj "GlobalVersion" [("version", v.get "version"), ("capabilities", v.get "capabilities")]

def view_SplitMergeInfo (v : Val) : Val :=
  Rd.obj "SplitMergeInfo" [("cur_shard_pfx_len", v.get "cur_shard_pfx_len"), ("acc_split_depth", v.get "acc_split_depth"),
                           ("this_addr", v.get "this_addr"), ("sibling_addr", v.get "sibling_addr")]

def view_SigPubKey (v : Val) : Val := Rd.obj "SigPubKey" [("pubkey", v.get "pubkey")]

end TonVerif.Tlb
