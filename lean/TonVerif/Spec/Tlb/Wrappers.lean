/-
Spec: the stand-alone wrappers of C15 -- wallet data, wallet message, hash update, NFT item / sale data.
Written from the storage layouts of the standard contracts and from block.tlb, NOT from the Python code.

* wallet v3 (ton-blockchain/ton `crypto/smartcont/wallet3-code.fc`, `recv_external`):
      var (stored_seqno, stored_subwallet, public_key) = (ds~load_uint(32), ds~load_uint(32), ds~load_uint(256));
  = `wallet_v3_data#_ seqno:uint32 wallet_id:uint32 public_key:bits256`
* wallet v4 (ton-blockchain/wallet-contract `func/wallet-v4-code.fc`):
      (ds~load_uint(32), ds~load_uint(32), ds~load_uint(256), ds~load_dict())   ;; seqno, subwallet, public_key, plugins
  = `wallet_v4_data#_ seqno:uint32 wallet_id:uint32 public_key:bits256 plugins:(HashmapE 264 ...)`; at this level a
  dictionary is `Maybe ^Cell` (`hme_empty$0 | hme_root$1 root:^…`, see `Spec/Tlb/Message.lean`)
* highload wallet v2 (`crypto/smartcont/highload-wallet-v2-code.fc`):
      var (stored_subwallet, last_cleaned, public_key, old_queries) =
          (ds~load_uint(32), ds~load_uint(64), ds~load_uint(256), ds~load_dict());
  = `highload_wallet_data#_ wallet_id:uint32 last_cleaned:uint64 public_key:bits256 old_queries:(HashmapE 64 …)`
* wallet message (the unit of the wallets' external message bodies, `send_raw_message(cs~load_ref(), mode)` after
  `var mode = cs~load_uint(8)`):  `wallet_message$_ send_mode:uint8 message:^(Message Any)`
* block.tlb:  `update_hashes#72 {X:Type} old_hash:bits256 new_hash:bits256 = HASH_UPDATE X;`
* NFT item (TEP-62 reference `nft-item.fc`, `load_data` of an initialised item):
      (index, collection_address) = (ds~load_uint(64), ds~load_msg_addr());  owner_address = ds~load_msg_addr();  content = ds~load_ref()
  = `nft_item_data#_ index:uint64 collection_address:MsgAddress owner_address:MsgAddress content:^Cell`
* NFT fix-price sale (getgems `nft-fixprice-sale-v3.fc`, `load_data`):
      ds~load_uint(1) is_complete, ds~load_uint(32) created_at, ds~load_msg_addr() ×3 (marketplace, nft, nft_owner),
      ds~load_coins() full_price, ds~load_ref() fees_cell, ds~load_uint(1) can_deploy_by_external;
      fees_cell: load_msg_addr marketplace_fee_address, load_coins marketplace_fee, load_msg_addr royalty_address, load_coins royalty_amount

Addresses are read with the union `MsgAddress` of `Spec/Tlb/Message.lean` (`addr_none` is a legal owner).
`bits256` values are byte strings of length 32 in the logical values.
-/
import TonVerif.Spec.Tlb.Message

namespace TonVerif.Spec.Tlb
open TonVerif
open TonVerif.Model (Addr)

variable {R : Type}

/-- `bits(8n)` given as `n` bytes -/
def eBytes (n : Nat) (h : Bytes) : Enc R :=
  if h.length = n ∧ Bytes.WF h then eBits (bytesToBits h) else none

def dBytes (n : Nat) : Dec R Bytes := do
  let bs ← dBits (n * 8)
  pure (bitsToBytes bs)

/-! ### logical values -/

structure WalletV3 where
  seqno : Int
  walletId : Int
  publicKey : Bytes

structure WalletV4 (R : Type) where
  seqno : Int
  walletId : Int
  publicKey : Bytes
  plugins : Option R               -- root of the plugin dictionary; `none` = empty

structure Highload (R : Type) where
  walletId : Int
  lastCleaned : Int
  publicKey : Bytes
  oldQueries : Option R            -- root of `HashmapE 64 WalletMessage`; `none` = empty

structure WalletMsg (R : Type) where
  sendMode : Int
  message : Msg R

structure HashUpd where
  oldHash : Bytes
  newHash : Bytes

structure NftItem (R : Type) where
  index : Int
  collection : Addr
  owner : Addr
  content : R

structure SaleFees where
  marketplaceFeeAddress : Addr
  marketplaceFee : Int
  royaltyAddress : Addr
  royaltyAmount : Int

structure SaleData where
  isComplete : Bool
  createdAt : Int
  marketplace : Addr
  nft : Addr
  nftOwner : Addr
  fullPrice : Int
  fees : SaleFees
  canDeployByExternal : Bool

/-! ### encoders -/

def encWalletV3 (w : WalletV3) : Enc R :=
  eUint 32 w.seqno +++ eUint 32 w.walletId +++ eBytes 32 w.publicKey

def encWalletV4 (w : WalletV4 R) : Enc R :=
  eUint 32 w.seqno +++ eUint 32 w.walletId +++ eBytes 32 w.publicKey +++ eMaybeRef w.plugins

def encHighload (w : Highload R) : Enc R :=
  eUint 32 w.walletId +++ eUint 64 w.lastCleaned +++ eBytes 32 w.publicKey +++ eMaybeRef w.oldQueries

/-- `message:^(Message Any)`: the referenced cell is any of the (up to four) encodings of the message -/
def encWalletMsg (ops : CellOps R) (w : WalletMsg R) (initRef bodyRef : Bool) : Enc R :=
  eUint 8 w.sendMode +++
  (match encMessage ops w.message initRef bodyRef with
   | some c => eRef c
   | none => none)

/-- the constructor tag `#72` is the byte 0x72 -/
def encHashUpd (h : HashUpd) : Enc R :=
  eBytes 1 [0x72] +++ eBytes 32 h.oldHash +++ eBytes 32 h.newHash

def encNftItem (n : NftItem R) : Enc R :=
  eUint 64 n.index +++ eAddr n.collection +++ eAddr n.owner +++ eRef n.content

def encSaleFees (f : SaleFees) : Enc R :=
  eAddr f.marketplaceFeeAddress +++ eGrams f.marketplaceFee +++ eAddr f.royaltyAddress +++ eGrams f.royaltyAmount

/-- `^X`: a reference to the cell that holds exactly the encoding `e` -/
def eRefTo (ops : CellOps R) (e : Enc R) : Enc R :=
  match e.bind (mkChunk ops) with
  | some c => eRef c
  | none => none

/-- `fees_cell:^NftItemSaleFees` -/
def encSaleData (ops : CellOps R) (s : SaleData) : Enc R :=
  eBool s.isComplete +++ eUint 32 s.createdAt +++ eAddr s.marketplace +++ eAddr s.nft +++ eAddr s.nftOwner +++
  eGrams s.fullPrice +++
  eRefTo ops (encSaleFees s.fees) +++ eBool s.canDeployByExternal

/-- the cell of an encoding -/
def encCell (ops : CellOps R) (e : Enc R) : Option R := e.bind (mkChunk ops)

/-! ### decoders -/

def dWalletV3 : Dec R WalletV3 := do
  let s ← dUint 32
  let w ← dUint 32
  let pk ← dBytes 32
  pure ⟨s, w, pk⟩

def dWalletV4 : Dec R (WalletV4 R) := do
  let s ← dUint 32
  let w ← dUint 32
  let pk ← dBytes 32
  let p ← dMaybe dRef
  pure ⟨s, w, pk, p⟩

def dHighload : Dec R (Highload R) := do
  let w ← dUint 32
  let lc ← dUint 64
  let pk ← dBytes 32
  let q ← dMaybe dRef
  pure ⟨w, lc, pk, q⟩

def dWalletMsg (ops : CellOps R) : Dec R (WalletMsg R) := do
  let mode ← dUint 8
  let r ← dRef
  fun c => (decodeMessage ops r).map (fun m => (⟨mode, m⟩, c))

def dHashUpd : Dec R HashUpd := do
  let tag ← dBytes 1
  if tag = [0x72] then do
    let o ← dBytes 32
    let n ← dBytes 32
    pure ⟨o, n⟩
  else Dec.fail

def dNftItem : Dec R (NftItem R) := do
  let i ← dUint 64
  let c ← dAddr
  let o ← dAddr
  let r ← dRef
  pure ⟨i, c, o, r⟩

def dSaleFees : Dec R SaleFees := do
  let a ← dAddr
  let f ← dGrams
  let b ← dAddr
  let r ← dGrams
  pure ⟨a, f, b, r⟩

def dSaleData (ops : CellOps R) : Dec R SaleData := do
  let c ← dBool
  let t ← dUint 32
  let m ← dAddr
  let n ← dAddr
  let o ← dAddr
  let p ← dGrams
  let r ← dRef
  let fees ← (fun ch => (decodeWhole dSaleFees (ops.view r)).map (fun f => (f, ch)) : Dec R SaleFees)
  let e ← dBool
  pure ⟨c, t, m, n, o, p, fees, e⟩

def decodeWalletV3 (ops : CellOps R) (c : R) : Option WalletV3 := decodeWhole dWalletV3 (ops.view c)
def decodeWalletV4 (ops : CellOps R) (c : R) : Option (WalletV4 R) := decodeWhole dWalletV4 (ops.view c)
def decodeHighload (ops : CellOps R) (c : R) : Option (Highload R) := decodeWhole dHighload (ops.view c)
def decodeWalletMsg (ops : CellOps R) (c : R) : Option (WalletMsg R) := decodeWhole (dWalletMsg ops) (ops.view c)
def decodeHashUpd (ops : CellOps R) (c : R) : Option HashUpd := decodeWhole dHashUpd (ops.view c)
def decodeNftItem (ops : CellOps R) (c : R) : Option (NftItem R) := decodeWhole dNftItem (ops.view c)
def decodeSaleFees (ops : CellOps R) (c : R) : Option SaleFees := decodeWhole dSaleFees (ops.view c)
def decodeSaleData (ops : CellOps R) (c : R) : Option SaleData := decodeWhole (dSaleData ops) (ops.view c)

/-! ### canonical form of the address fields (what a decoder can return, see `AddrWF`) -/

def NftItem.WF (n : NftItem R) : Prop := AddrWF n.collection ∧ AddrWF n.owner
def SaleFees.WF (f : SaleFees) : Prop := AddrWF f.marketplaceFeeAddress ∧ AddrWF f.royaltyAddress
def SaleData.WF (s : SaleData) : Prop := AddrWF s.marketplace ∧ AddrWF s.nft ∧ AddrWF s.nftOwner ∧ s.fees.WF

/-! ### `Message X` proper -/

instance (i : Info R) : Decidable i.Conforms := by
  cases i <;> unfold Info.Conforms <;> infer_instance

/-- an internal header whose two addresses carry no anycast (the other two constructors: no restriction) -/
def Info.IntNoAnycast : Info R → Prop
  | .int _ _ _ src dest _ _ _ _ _ => (∃ w h, src = Addr.std none w h) ∧ (∃ w h, dest = Addr.std none w h)
  | _ => True

end TonVerif.Spec.Tlb
