/-
Spec: the TVM stack TL-B schema of block.tlb, as relations "(bits, refs) is the serialisation of x
as type X".  A relation is encoder and decoder at once: read left-to-right it says what an encoder may
emit, read right-to-left what a decoder must return.

    vm_stack#_ depth:(## 24) stack:(VmStackList depth) = VmStack;
    vm_stk_cons#_ {n:#} rest:^(VmStackList n) tos:VmStackValue = VmStackList (n + 1);
    vm_stk_nil#_ = VmStackList 0;
    vm_stk_null#00 = VmStackValue;
    vm_stk_tinyint#01 value:int64 = VmStackValue;
    vm_stk_int#0201_ value:int257 = VmStackValue;            -- 15-bit tag 000000100000000
    vm_stk_nan#02ff = VmStackValue;                          -- no Python value; not in `Val`
    vm_stk_cell#03 cell:^Cell = VmStackValue;
    _ cell:^Cell st_bits:(## 10) end_bits:(## 10) { st_bits <= end_bits }
      st_ref:(#<= 4) end_ref:(#<= 4) { st_ref <= end_ref } = VmCellSlice;
    vm_stk_slice#04 _:VmCellSlice = VmStackValue;
    vm_stk_builder#05 cell:^Cell = VmStackValue;
    vm_stk_cont#06 cont:VmCont = VmStackValue;
    vm_tupref_nil$_ = VmTupleRef 0;
    vm_tupref_single$_ entry:^VmStackValue = VmTupleRef 1;
    vm_tupref_any$_ {n:#} ref:^(VmTuple (n + 2)) = VmTupleRef (n + 2);
    vm_tuple_nil$_ = VmTuple 0;
    vm_tuple_tcons$_ {n:#} head:(VmTupleRef n) tail:^VmStackValue = VmTuple (n + 1);
    vm_stk_tuple#07 len:(## 16) data:(VmTuple len) = VmStackValue;
    _ cregs:(HashmapE 4 VmStackValue) = VmSaveList;
    vm_ctl_data$_ nargs:(Maybe uint13) stack:(Maybe VmStack) save:VmSaveList cp:(Maybe int16) = VmControlData;
    vmc_std$00 cdata:VmControlData code:VmCellSlice = VmCont;
    vmc_envelope$01 cdata:VmControlData next:^VmCont = VmCont;
    vmc_quit$1000 exit_code:int32 = VmCont;
    vmc_quit_exc$1001 = VmCont;
    vmc_repeat$10100 count:uint63 body:^VmCont after:^VmCont = VmCont;
    vmc_until$110000 body:^VmCont after:^VmCont = VmCont;
    vmc_again$110001 body:^VmCont = VmCont;
    vmc_while_cond$110010 cond:^VmCont body:^VmCont after:^VmCont = VmCont;
    vmc_while_body$110011 cond:^VmCont body:^VmCont after:^VmCont = VmCont;
    vmc_pushint$1111 value:int32 next:^VmCont = VmCont;

Conventions: `view c` = (data bits, references) of cell `c`; `^X` = a cell whose whole content is an X.
A cons-list type of the schema is a Lean list in schema order: `VmStackList` top of stack first (`tos`
is the head), `VmTuple` last entry first (`tail` is the head).  Canonical choice for integers (as the
reference implementation writes them): `vm_stk_tinyint` iff the value fits int64.  The save list is the
root of a `HashmapE 4`, kept opaque (`Option R`): present bit + reference.
-/
import TonVerif.Basic
namespace TonVerif.Spec.Vm
open TonVerif

mutual
/-- stack values (`VmStackValue` without NaN) -/
inductive Val (R : Type) where
  | null
  | int (v : Int)
  | cell (c : R)
  | slice (bits : Bits) (refs : List R)            -- remaining bits, remaining refs
  | builder (bits : Bits) (refs : List R)
  | cont (k : Cont R)
  | tuple (vs : List (Val R))                      -- last entry first
/-- `VmCont` -/
inductive Cont (R : Type) where
  | std (cd : Ctl R) (codeBits : Bits) (codeRefs : List R)
  | envelope (cd : Ctl R) (next : Cont R)
  | quit (exitCode : Int)
  | quitExc
  | repeat_ (count : Int) (body after : Cont R)
  | until_ (body after : Cont R)
  | again (body : Cont R)
  | whileCond (cond body after : Cont R)
  | whileBody (cond body after : Cont R)
  | pushint (value : Int) (next : Cont R)
/-- `VmControlData`: nargs, stack (top first), save (dictionary root), cp -/
inductive Ctl (R : Type) where
  | mk (nargs : Option Int) (stack : Option (List (Val R))) (save : Option R) (cp : Option Int)
end

/-- `(## n)` / `uintN`: big-endian, `n` bits -/
def uintBits (n : Nat) (v : Int) : Bits := natToBits n v.toNat
/-- `intN`: two's complement, `n` bits -/
def intBits (n : Nat) (v : Int) : Bits := natToBits n (v % (2 ^ n : Int)).toNat
def UintOk (n : Nat) (v : Int) : Prop := 0 ≤ v ∧ v < (2 ^ n : Int)
def IntOk (n : Nat) (v : Int) : Prop := -(2 ^ (n - 1) : Int) ≤ v ∧ v < (2 ^ (n - 1) : Int)

/-- `#xx` constructor tag of one byte -/
def tagByte (b : Nat) : Bits := natToBits 8 b
/-- `#0201_` : 0000 0010 0000 000 -/
def tag0201 : Bits := natToBits 15 0x100

/-- `Maybe X` for a scalar X of fixed width -/
def maybeBits (enc : Int → Bits) : Option Int → Bits
  | none => [false]
  | some v => true :: enc v
def MaybeOk (ok : Int → Prop) : Option Int → Prop
  | none => True
  | some v => ok v

/-- python slice `xs[a:b]` -/
def window (xs : List α) (a b : Nat) : List α := (xs.take b).drop a

variable {R : Type}

/-- `VmCellSlice`: the slice with data `bits`, references `refs` is the window [st,en) × [sr,er) of cell `c` -/
inductive IsCellSlice (view : R → Bits × List R) : Bits → List R → Bits → List R → Prop where
  | mk (c : R) (st en sr er : Nat) :
      st ≤ en → en ≤ (view c).1.length → en < 1024 → sr ≤ er → er ≤ (view c).2.length → er ≤ 4 →
      IsCellSlice view (window (view c).1 st en) (window (view c).2 sr er)
        (uintBits 10 st ++ uintBits 10 en ++ uintBits 3 sr ++ uintBits 3 er) [c]

mutual
/-- `VmStackValue` -/
inductive IsValue (view : R → Bits × List R) (ord : R → Bool) : Val R → Bits → List R → Prop where
  | null : IsValue view ord .null (tagByte 0) []
  | tinyint (v : Int) : IntOk 64 v → IsValue view ord (.int v) (tagByte 1 ++ intBits 64 v) []
  | int257 (v : Int) : ¬ IntOk 64 v → IntOk 257 v → IsValue view ord (.int v) (tag0201 ++ intBits 257 v) []
  | cell (c : R) : IsValue view ord (.cell c) (tagByte 3) [c]
  | slice : IsCellSlice view bits refs b r → IsValue view ord (.slice bits refs) (tagByte 4 ++ b) r
  | builder (c : R) : ord c = true → view c = (bits, refs) → IsValue view ord (.builder bits refs) (tagByte 5) [c]
  | cont : IsCont view ord k b r → IsValue view ord (.cont k) (tagByte 6 ++ b) r
  | tuple : vs.length < 2 ^ 16 → IsTuple view ord vs.length vs b r →
      IsValue view ord (.tuple vs) (tagByte 7 ++ uintBits 16 vs.length ++ b) r
/-- `VmTuple n` (last entry first) -/
inductive IsTuple (view : R → Bits × List R) (ord : R → Bool) : Nat → List (Val R) → Bits → List R → Prop where
  | nil : IsTuple view ord 0 [] [] []
  | tcons (c : R) : IsTupleRef view ord n hd hb hr → IsValue view ord tl (view c).1 (view c).2 →
      IsTuple view ord (n + 1) (tl :: hd) hb (hr ++ [c])
/-- `VmTupleRef n` -/
inductive IsTupleRef (view : R → Bits × List R) (ord : R → Bool) : Nat → List (Val R) → Bits → List R → Prop where
  | nil : IsTupleRef view ord 0 [] [] []
  | single (c : R) : IsValue view ord v (view c).1 (view c).2 → IsTupleRef view ord 1 [v] [] [c]
  | any (c : R) : IsTuple view ord (n + 2) vs (view c).1 (view c).2 → IsTupleRef view ord (n + 2) vs [] [c]
/-- `VmStackList n` (top first) -/
inductive IsStackList (view : R → Bits × List R) (ord : R → Bool) : Nat → List (Val R) → Bits → List R → Prop where
  | nil : IsStackList view ord 0 [] [] []
  | cons (c : R) : IsStackList view ord n rest (view c).1 (view c).2 → IsValue view ord tos b r →
      IsStackList view ord (n + 1) (tos :: rest) b (c :: r)
/-- `VmCont` -/
inductive IsCont (view : R → Bits × List R) (ord : R → Bool) : Cont R → Bits → List R → Prop where
  | std : IsCtl view ord cd b1 r1 → IsCellSlice view cb cr b2 r2 →
      IsCont view ord (.std cd cb cr) ([false, false] ++ b1 ++ b2) (r1 ++ r2)
  | envelope (c : R) : IsCtl view ord cd b1 r1 → IsCont view ord next (view c).1 (view c).2 →
      IsCont view ord (.envelope cd next) ([false, true] ++ b1) (r1 ++ [c])
  | quit (code : Int) : IntOk 32 code → IsCont view ord (.quit code) ([true, false, false, false] ++ intBits 32 code) []
  | quitExc : IsCont view ord .quitExc [true, false, false, true] []
  | repeat_ (count : Int) (cb ca : R) : UintOk 63 count →
      IsCont view ord body (view cb).1 (view cb).2 → IsCont view ord after (view ca).1 (view ca).2 →
      IsCont view ord (.repeat_ count body after) ([true, false, true, false, false] ++ uintBits 63 count) [cb, ca]
  | until_ (cb ca : R) :
      IsCont view ord body (view cb).1 (view cb).2 → IsCont view ord after (view ca).1 (view ca).2 →
      IsCont view ord (.until_ body after) [true, true, false, false, false, false] [cb, ca]
  | again (cb : R) : IsCont view ord body (view cb).1 (view cb).2 →
      IsCont view ord (.again body) [true, true, false, false, false, true] [cb]
  | whileCond (cc cb ca : R) : IsCont view ord cnd (view cc).1 (view cc).2 →
      IsCont view ord body (view cb).1 (view cb).2 → IsCont view ord after (view ca).1 (view ca).2 →
      IsCont view ord (.whileCond cnd body after) [true, true, false, false, true, false] [cc, cb, ca]
  | whileBody (cc cb ca : R) : IsCont view ord cnd (view cc).1 (view cc).2 →
      IsCont view ord body (view cb).1 (view cb).2 → IsCont view ord after (view ca).1 (view ca).2 →
      IsCont view ord (.whileBody cnd body after) [true, true, false, false, true, true] [cc, cb, ca]
  | pushint (value : Int) (c : R) : IntOk 32 value → IsCont view ord next (view c).1 (view c).2 →
      IsCont view ord (.pushint value next) ([true, true, true, true] ++ intBits 32 value) [c]
/-- `VmControlData` (the `Maybe VmStack` is inlined: depth, then `VmStackList depth`) -/
inductive IsCtl (view : R → Bits × List R) (ord : R → Bool) : Ctl R → Bits → List R → Prop where
  | noStack : MaybeOk (UintOk 13) nargs → MaybeOk (IntOk 16) cp →
      IsCtl view ord (.mk nargs none save cp)
        (maybeBits (uintBits 13) nargs ++ [false] ++ [save.isSome] ++ maybeBits (intBits 16) cp) save.toList
  | withStack : MaybeOk (UintOk 13) nargs → MaybeOk (IntOk 16) cp → st.length < 2 ^ 24 →
      IsStackList view ord st.length st b r →
      IsCtl view ord (.mk nargs (some st) save cp)
        (maybeBits (uintBits 13) nargs ++ [true] ++ uintBits 24 st.length ++ b ++ [save.isSome] ++ maybeBits (intBits 16) cp)
        (r ++ save.toList)
end

/-- `VmStack`: depth, then the list -/
inductive IsStack (view : R → Bits × List R) (ord : R → Bool) : List (Val R) → Bits → List R → Prop where
  | mk : vs.length < 2 ^ 24 → IsStackList view ord vs.length vs b r →
      IsStack view ord vs (uintBits 24 vs.length ++ b) r

end TonVerif.Spec.Vm
