/-
Spec: messages, state-inits and currency values per `block.tlb` -- the "independent reading" of C15.

    nothing$0 {X:Type} = Maybe X;            just$1 {X:Type} value:X = Maybe X;
    left$0 {X:Type} {Y:Type} value:X = Either X Y;   right$1 ... value:Y = Either X Y;
    var_uint$_ {n:#} len:(#< n) value:(uint (len * 8)) = VarUInteger n;
    nanograms$_ amount:(VarUInteger 16) = Grams;
    extra_currencies$_ dict:(HashmapE 32 (VarUInteger 32)) = ExtraCurrencyCollection;
    currencies$_ grams:Grams other:ExtraCurrencyCollection = CurrencyCollection;
    addr_none$00 = MsgAddressExt;   addr_extern$01 len:(## 9) external_address:(bits len) = MsgAddressExt;
    anycast_info$_ depth:(#<= 30) { depth >= 1 } rewrite_pfx:(bits depth) = Anycast;
    addr_std$10 anycast:(Maybe Anycast) workchain_id:int8 address:bits256 = MsgAddressInt;
    int_msg_info$0 ihr_disabled:Bool bounce:Bool bounced:Bool src:MsgAddressInt dest:MsgAddressInt
      value:CurrencyCollection ihr_fee:Grams fwd_fee:Grams created_lt:uint64 created_at:uint32 = CommonMsgInfo;
    ext_in_msg_info$10 src:MsgAddressExt dest:MsgAddressInt import_fee:Grams = CommonMsgInfo;
    ext_out_msg_info$11 src:MsgAddressInt dest:MsgAddressExt created_lt:uint64 created_at:uint32 = CommonMsgInfo;
    tick_tock$_ tick:Bool tock:Bool = TickTock;
    _ split_depth:(Maybe (## 5)) special:(Maybe TickTock) code:(Maybe ^Cell) data:(Maybe ^Cell)
      library:(HashmapE 256 SimpleLib) = StateInit;
    message$_ {X:Type} info:CommonMsgInfo init:(Maybe (Either StateInit ^StateInit)) body:(Either X ^X) = Message X;

Reading conventions
* A serialised piece is a `Chunk` = bits + references; a TL-B value of a type occupies a prefix of the
  bits and a prefix of the references of its cell, fields in order (tlb.pdf / tblkch.pdf 3.1).
* `HashmapE n X` is `hme_empty$0 | hme_root$1 root:^(Hashmap n X)`: at this level a dictionary is an
  optional reference (`none` = empty dictionary); what is inside the root cell is the subject of C09/C10.
  The same holds for `library`.
* Address fields are read with the union `MsgAddress` (`addr_none | addr_extern | addr_std`; `addr_var`
  has no value in the library's data model), which also covers `MessageRelaxed` (`src:MsgAddress`);
  `Msg.Conforms` is the class restriction of `Message X` proper (src/dest `MsgAddressInt` / `MsgAddressExt`).
* The decoder accepts every `VarUInteger` length (the schema does not demand the minimal one); the
  encoder writes the minimal length.
* `Message Any`: an inline body is the rest of the cell; a body by reference must be the last thing in it.

The logical values reuse `Model.Addr` (a plain data type) for addresses.
-/
import TonVerif.Basic
import TonVerif.Model.Builder

namespace TonVerif.Spec.Tlb
open TonVerif
open TonVerif.Model (Addr)

/-- bits + references of (a piece of) a cell -/
abbrev Chunk (R : Type) := Bits × List R

/-- cells as seen by this level: building an ordinary cell from its data (`none`: the cell cannot exist,
    e.g. depth > 1023) and reading the data back -/
structure CellOps (R : Type) where
  make : Bits → List R → Option R
  view : R → Chunk R

/-- `view` inverts `mk` -/
def CellOps.Lawful {R} (ops : CellOps R) : Prop := ∀ b r c, ops.make b r = some c → ops.view c = (b, r)

/-- every cell that has room exists (no depth overflow) -/
def CellOps.Total {R} (ops : CellOps R) : Prop := ∀ b r, b.length ≤ 1023 → r.length ≤ 4 → (ops.make b r).isSome

/-! ### logical values -/

structure Currency (R : Type) where
  grams : Int
  other : Option R            -- root of the extra-currency dictionary; `none` = `{}` / `None`

structure TickTock where
  tick : Bool
  tock : Bool
  deriving DecidableEq, Repr

structure StateInit (R : Type) where
  splitDepth : Option Int
  special : Option TickTock
  code : Option R
  data : Option R
  library : Option R

inductive Info (R : Type) where
  | int (ihrDisabled bounce bounced : Bool) (src dest : Addr) (value : Currency R)
        (ihrFee fwdFee createdLt createdAt : Int)
  | extIn (src dest : Addr) (importFee : Int)
  | extOut (src dest : Addr) (createdLt createdAt : Int)

structure Msg (R : Type) where
  info : Info R
  init : Option (StateInit R)
  body : Chunk R              -- bits and references of the body cell

/-! ### encoder -/

/-- an encoded piece; `none` = the value is outside the range of its type -/
abbrev Enc (R : Type) := Option (Chunk R)

def Enc.cat {R} (a b : Enc R) : Enc R :=
  match a, b with
  | some (x, r), some (y, s) => some (x ++ y, r ++ s)
  | _, _ => none

infixr:65 " +++ " => Enc.cat

variable {R : Type}

def eNil : Enc R := some ([], [])
def eBits (bs : Bits) : Enc R := some (bs, [])
def eBool (b : Bool) : Enc R := some ([b], [])
def eRef (r : R) : Enc R := some ([], [r])

/-- `uintN` / `## N` -/
def eUint (n : Nat) (v : Int) : Enc R :=
  if 0 ≤ v ∧ v < (2 ^ n : Int) then some (natToBits n v.toNat, []) else none

/-- `intN`, two's complement -/
def eInt (n : Nat) (v : Int) : Enc R :=
  if -(2 ^ (n - 1) : Int) ≤ v ∧ v < (2 ^ (n - 1) : Int) ∧ 0 < n then
    some (natToBits n (if 0 ≤ v then v.toNat else (v + (2 ^ n : Int)).toNat), [])
  else none

/-- number of base-256 digits -/
def nbytes : Nat → Nat
  | 0 => 0
  | n+1 => 1 + nbytes ((n+1) / 256)
decreasing_by omega

/-- `VarUInteger (2^k)` with the minimal length -/
def eVarUint (k : Nat) (v : Int) : Enc R :=
  if 0 ≤ v then eUint k (nbytes v.toNat) +++ eUint (nbytes v.toNat * 8) v else none

def eGrams (v : Int) : Enc R := eVarUint 4 v

def eMaybeRef : Option R → Enc R
  | none => eBool false
  | some r => eBool true +++ eRef r

def eAddr : Addr → Enc R
  | .none => eBits [false, false]
  | .ext len val => eBits [false, true] +++ eUint 9 len +++ (if len = 0 then (if val = 0 then eNil else none) else eUint len val)
  | .std anycast wc hash =>
    eBits [true, false] +++
    (match anycast with
     | none => eBool false
     | some (d, p) => if 1 ≤ d ∧ d ≤ 30 then eBool true +++ eUint 5 d +++ eUint d p else none) +++
    eInt 8 wc +++ (if hash.length = 32 ∧ Bytes.WF hash then eBits (bytesToBits hash) else none)

def encCurrency (c : Currency R) : Enc R := eGrams c.grams +++ eMaybeRef c.other

def encTickTock (t : TickTock) : Enc R := eBool t.tick +++ eBool t.tock

def encStateInit (s : StateInit R) : Enc R :=
  (match s.splitDepth with | none => eBool false | some d => eBool true +++ eUint 5 d) +++
  (match s.special with | none => eBool false | some t => eBool true +++ encTickTock t) +++
  eMaybeRef s.code +++ eMaybeRef s.data +++ eMaybeRef s.library

def encInfo : Info R → Enc R
  | .int a b c src dest value ihr fwd lt at_ =>
    eBool false +++ eBool a +++ eBool b +++ eBool c +++ eAddr src +++ eAddr dest +++ encCurrency value +++
    eGrams ihr +++ eGrams fwd +++ eUint 64 lt +++ eUint 32 at_
  | .extIn src dest fee => eBits [true, false] +++ eAddr src +++ eAddr dest +++ eGrams fee
  | .extOut src dest lt at_ => eBits [true, true] +++ eAddr src +++ eAddr dest +++ eUint 64 lt +++ eUint 32 at_

/-- the cell of a chunk, if it has room -/
def mkChunk (ops : CellOps R) (c : Chunk R) : Option R :=
  if c.1.length ≤ 1023 ∧ c.2.length ≤ 4 then ops.make c.1 c.2 else none

/-- `init:(Maybe (Either StateInit ^StateInit))`; `byRef` picks the `Either` side -/
def encInit (ops : CellOps R) (init : Option (StateInit R)) (byRef : Bool) : Enc R :=
  match init with
  | none => eBool false
  | some s =>
    if byRef then
      match (encStateInit s).bind (mkChunk ops) with
      | some c => eBits [true, true] +++ eRef c
      | none => none
    else eBits [true, false] +++ encStateInit s

/-- `body:(Either X ^X)` -/
def encBody (ops : CellOps R) (body : Chunk R) (byRef : Bool) : Enc R :=
  if byRef then
    match mkChunk ops body with
    | some c => eBool true +++ eRef c
    | none => none
  else eBool false +++ some body

/-- all the data of a message cell for the given two `Either` choices -/
def encMessageChunk (ops : CellOps R) (m : Msg R) (initRef bodyRef : Bool) : Enc R :=
  encInfo m.info +++ encInit ops m.init initRef +++ encBody ops m.body bodyRef

/-- the message cell for the given two `Either` choices (`none`: out of range or does not fit) -/
def encMessage (ops : CellOps R) (m : Msg R) (initRef bodyRef : Bool) : Option R :=
  (encMessageChunk ops m initRef bodyRef).bind (mkChunk ops)

/-! ### decoder -/

/-- a reader of a prefix of a chunk -/
abbrev Dec (R : Type) (α : Type) := Chunk R → Option (α × Chunk R)

namespace Dec
variable {α β : Type}
def pure (a : α) : Dec R α := fun c => some (a, c)
def fail : Dec R α := fun _ => none
def bind (p : Dec R α) (f : α → Dec R β) : Dec R β := fun c =>
  match p c with
  | some (a, c') => f a c'
  | none => none
instance : Monad (Dec R) where
  pure := Dec.pure
  bind := Dec.bind
end Dec

def dBits (n : Nat) : Dec R Bits := fun c =>
  if c.1.length < n then none else some (c.1.take n, (c.1.drop n, c.2))

def dBool : Dec R Bool := fun c =>
  match c.1 with
  | [] => none
  | b :: rest => some (b, (rest, c.2))

def dRef : Dec R R := fun c =>
  match c.2 with
  | [] => none
  | r :: rest => some (r, (c.1, rest))

def dUint (n : Nat) : Dec R Int := do
  let bs ← dBits n
  pure (natOfBits bs : Int)

def dInt (n : Nat) : Dec R Int := do
  let bs ← dBits n
  match bs with
  | [] => Dec.fail
  | sign :: _ => pure (if sign then (natOfBits bs : Int) - (2 ^ n : Int) else natOfBits bs)

def dVarUint (k : Nat) : Dec R Int := do
  let len ← dUint k
  dUint (len.toNat * 8)

def dGrams : Dec R Int := dVarUint 4

def dMaybe {α} (p : Dec R α) : Dec R (Option α) := do
  let b ← dBool
  if b then do
    let a ← p
    pure (some a)
  else pure none

def dAnycast : Dec R (Nat × Int) := do
  let d ← dUint 5
  if d < 1 ∨ d > 30 then Dec.fail else do
    let p ← dUint d.toNat
    pure (d.toNat, p)

def dAddr : Dec R Addr := do
  let t0 ← dBool
  let t1 ← dBool
  if !t0 then
    if !t1 then pure Addr.none
    else do
      let len ← dUint 9
      let v ← dUint len.toNat
      pure (Addr.ext len.toNat v)
  else
    if !t1 then do
      let any ← dMaybe dAnycast
      let wc ← dInt 8
      let h ← dBits 256
      pure (Addr.std any wc (bitsToBytes h))
    else Dec.fail             -- addr_var: no value in the data model

def dCurrency : Dec R (Currency R) := do
  let g ← dGrams
  let o ← dMaybe dRef
  pure ⟨g, o⟩

def dTickTock : Dec R TickTock := do
  let a ← dBool
  let b ← dBool
  pure ⟨a, b⟩

def dStateInit : Dec R (StateInit R) := do
  let sd ← dMaybe (dUint 5)
  let sp ← dMaybe dTickTock
  let code ← dMaybe dRef
  let data ← dMaybe dRef
  let lib ← dMaybe dRef
  pure ⟨sd, sp, code, data, lib⟩

def dInfo : Dec R (Info R) := do
  let t0 ← dBool
  if !t0 then do
    let a ← dBool
    let b ← dBool
    let c ← dBool
    let src ← dAddr
    let dest ← dAddr
    let value ← dCurrency
    let ihr ← dGrams
    let fwd ← dGrams
    let lt ← dUint 64
    let at_ ← dUint 32
    pure (Info.int a b c src dest value ihr fwd lt at_)
  else do
    let t1 ← dBool
    if !t1 then do
      let src ← dAddr
      let dest ← dAddr
      let fee ← dGrams
      pure (Info.extIn src dest fee)
    else do
      let src ← dAddr
      let dest ← dAddr
      let lt ← dUint 64
      let at_ ← dUint 32
      pure (Info.extOut src dest lt at_)

/-- a value that occupies its cell completely -/
def decodeWhole {α} (p : Dec R α) (c : Chunk R) : Option α :=
  match p c with
  | some (a, ([], [])) => some a
  | _ => none

def dInit (ops : CellOps R) : Dec R (Option (StateInit R)) :=
  dMaybe (do
    let e ← dBool
    if e then do
      let r ← dRef
      fun c => (decodeWhole dStateInit (ops.view r)).map (fun s => (s, c))
    else dStateInit)

def dMessage (ops : CellOps R) : Dec R (Msg R) := do
  let info ← dInfo
  let init ← dInit ops
  let e ← dBool
  if e then do
    let r ← dRef
    pure ⟨info, init, ops.view r⟩
  else fun c => some (⟨info, init, c⟩, ([], []))

/-- **the independent reading**: the logical message a cell denotes under `Message Any` -/
def decodeMessage (ops : CellOps R) (c : R) : Option (Msg R) := decodeWhole (dMessage ops) (ops.view c)

/-- stand-alone values -/
def decodeStateInit (ops : CellOps R) (c : R) : Option (StateInit R) := decodeWhole dStateInit (ops.view c)
def decodeCurrency (ops : CellOps R) (c : R) : Option (Currency R) := decodeWhole dCurrency (ops.view c)

/-! ### class restriction of `Message X` proper and value ranges -/

def Addr.isInt : Addr → Bool
  | .std _ _ _ => true
  | _ => false

def Addr.isExt : Addr → Bool
  | .std _ _ _ => false
  | _ => true

/-- `Message X` (not `MessageRelaxed`): `src`/`dest` are in the class the constructor names -/
def Info.Conforms : Info R → Prop
  | .int _ _ _ src dest _ _ _ _ _ => Addr.isInt src ∧ Addr.isInt dest
  | .extIn src dest _ => Addr.isExt src ∧ Addr.isInt dest
  | .extOut src dest _ _ => Addr.isInt src ∧ Addr.isExt dest

/-- the strict reading: `Message Any` with the address classes enforced -/
def decodeMessageStrict (ops : CellOps R) [∀ i : Info R, Decidable i.Conforms] (c : R) : Option (Msg R) :=
  (decodeMessage ops c).bind (fun m => if m.info.Conforms then some m else none)

/-- canonical form of address values (what a decoder can return) -/
def AddrWF : Addr → Prop
  | .none => True
  | .ext len val => len = 0 → val = 0
  | .std _ _ _ => True

def Info.WF : Info R → Prop
  | .int _ _ _ src dest _ _ _ _ _ => AddrWF src ∧ AddrWF dest
  | .extIn src dest _ => AddrWF src ∧ AddrWF dest
  | .extOut src dest _ _ => AddrWF src ∧ AddrWF dest

end TonVerif.Spec.Tlb
