/-
Spec: the TL binary format (core.telegram.org/mtproto/TL, .../serialize, TL-formal; TON's tl-parser
uses the same rules) for the subset the bundled schemas use.

* constructor id  = CRC-32 (IEEE 802.3, reflected polynomial 0xEDB88320, init/xorout 0xFFFFFFFF) of the
  declaration text normalised to single spaces with `;`, `(`, `)`, `{`, `}` removed, unless the
  declaration names the id explicitly (`name#1a2b3c4d`); on the wire it is 4 bytes little-endian.
* `int`/`long`: 4/8 bytes little-endian two's complement; `#` (nat): 4 bytes little-endian unsigned;
  `int128`/`int256`: 16/32 raw bytes.
* `bytes`/`string`: length L < 254: one byte L; else byte 0xFE and L in 3 bytes little-endian; then
  the data; then zero bytes up to a multiple of 4.
* `Bool`: the id of `boolTrue` (0x997275b5) or `boolFalse` (0xbc799737).
* `vector T`: element count in 4 bytes little-endian, then the elements.
* bare type (lower-case constructor name): the fields only; boxed type (upper-case class name): the
  constructor id, then the fields.
* conditional field `flags.N?T`: present iff bit N of the preceding nat field `flags` is set.

Everything is numeric (names, classes and field names are interned to `Nat` by the table generator) so
that tables can be evaluated by the kernel.  Import-free.
-/
import TonVerif.Basic

namespace TonVerif.Spec.Tl
open TonVerif

/-! ### CRC-32 (IEEE) on `Nat` (bit at a time, no tables) -/

def crcStep (c : Nat) : Nat := if c % 2 = 1 then (c / 2) ^^^ 0xEDB88320 else c / 2

def crcByte (c b : Nat) : Nat :=
  crcStep (crcStep (crcStep (crcStep (crcStep (crcStep (crcStep (crcStep (c ^^^ b))))))))

/-- CRC-32/ISO-HDLC (= `zlib.crc32`). -/
def crc32 (data : Bytes) : Nat := (data.foldl crcByte 0xFFFFFFFF) ^^^ 0xFFFFFFFF

/-! ### constructor ids -/

def hexNibble? (c : Nat) : Option Nat :=
  if 48 ≤ c ∧ c ≤ 57 then some (c - 48)
  else if 97 ≤ c ∧ c ≤ 102 then some (c - 87)
  else if 65 ≤ c ∧ c ≤ 70 then some (c - 55)
  else none

def hexNumber? (cs : List Nat) : Option Nat :=
  cs.foldl (fun acc c => match acc, hexNibble? c with
    | some a, some d => some (a * 16 + d)
    | _, _ => none) (some 0)

/-- id of a normalised declaration (ASCII bytes): the explicit `#hex` suffix of the constructor name if
there is one, else the CRC-32 of the whole text. -/
def tlId (decl : Bytes) : Nat :=
  let head := decl.takeWhile (· ≠ 32)
  if 35 ∈ head then (hexNumber? ((head.dropWhile (· ≠ 35)).drop 1)).getD 0
  else crc32 decl

/-- 8 little-endian bytes of a word; `unpackLE len ws` = the first `len` bytes of the words (how the
generated table stores declaration texts). -/
def wordBytes (w : Nat) : Bytes :=
  [w % 256, w / 0x100 % 256, w / 0x10000 % 256, w / 0x1000000 % 256, w / 0x100000000 % 256,
   w / 0x10000000000 % 256, w / 0x1000000000000 % 256, w / 0x100000000000000 % 256]

def unpackLE (len : Nat) (ws : List Nat) : Bytes := (ws.flatMap wordBytes).take len

/-! ### schema tables -/

/-- element types.  `bare n` = reference to the constructor named `n`; `boxed c` = reference to the
class (result type) `c`; `unsup` = a type the library does not implement (`vector<T>`, `{t:Type}`). -/
inductive ETy
  | int | long | nat | int128 | int256 | bool | bytes | string
  | bare (name : Nat) | boxed (cls : Nat) | unsup
deriving DecidableEq, Repr, Inhabited

structure Arg where
  name : Nat
  /-- `some (f, N)` for a conditional field `f.N?T`. -/
  cond : Option (Nat × Nat)
  /-- `(vector T)` -/
  vec : Bool
  ty : ETy
deriving DecidableEq, Repr, Inhabited

structure Ctor where
  name : Nat
  cls : Nat
  /-- the constructor id as a number (wire bytes = 4 bytes little-endian). -/
  id : Nat
  args : List Arg
  /-- the normalised declaration text (ASCII). -/
  decl : Bytes
deriving DecidableEq, Repr, Inhabited

structure Table where
  ctors : List Ctor
  /-- interned field names `mode` and `flags` -/
  modeKey : Nat
  flagsKey : Nat
  /-- (constructor name, field name) pairs that are never auto-deserialised -/
  untouch : List (Nat × Nat)

/-- `id_map` / `name_map` are Python dicts filled in list order: the last entry wins. -/
def Table.byId (T : Table) (id : Nat) : Option Ctor := T.ctors.reverse.find? (fun c => c.id == id)
def Table.byName (T : Table) (n : Nat) : Option Ctor := T.ctors.reverse.find? (fun c => c.name == n)
def Table.byClass (T : Table) (cl : Nat) : List Ctor := T.ctors.filter (fun c => c.cls == cl)

/-! ### values -/

/-- JSON-like values as the library exchanges them.  `str u` is the Python `str` whose UTF-8 encoding
is `u`; `hex b` is the `str` `b.hex()` (the form of `int128`/`int256`); `obj ty fs` is a dict with
`'@type' = ty` (if any) and the other keys `fs` in insertion order. -/
inductive Val
  | int (i : Int)
  | bool (b : Bool)
  | bytes (b : Bytes)
  | str (utf8 : Bytes)
  | hex (b : Bytes)
  | list (vs : List Val)
  | obj (ty : Option Nat) (fs : List (Nat × Val))
deriving Inhabited

abbrev Fields := List (Nat × Val)

/-- the fields of `whole` that the argument list declares, in declaration order. -/
def canonFields (args : List Arg) (whole : Fields) : Fields :=
  args.filterMap (fun a => (whole.lookup a.name).map (fun v => (a.name, v)))

/-! ### primitive encodings -/

/-- `w` little-endian base-256 digits of `v`. -/
def natToLE : Nat → Nat → Bytes
  | 0, _ => []
  | w+1, v => v % 256 :: natToLE w (v / 256)

def natOfLE : Bytes → Nat
  | [] => 0
  | b :: bs => b + 256 * natOfLE bs

/-- little-endian two's complement in `w` bytes. -/
def intLE (w : Nat) (i : Int) : Bytes := natToLE w (i % (256 ^ w : Nat)).toNat

/-- zero bytes needed after `n` bytes to reach a multiple of 4. -/
def padLen (n : Nat) : Nat := (4 - n % 4) % 4

/-- TL framing of a byte string. -/
def encodeBytes (b : Bytes) : Bytes :=
  let hdr := if b.length < 254 then [b.length] else 254 :: natToLE 3 b.length
  hdr ++ b ++ List.replicate (padLen (hdr.length + b.length)) 0

def boolTrueId : Nat := 0x997275b5
def boolFalseId : Nat := 0xbc799737

/-- well-formed UTF-8 (Unicode 15, Table 3-7): what `bytes.decode()` accepts and `str.encode()` produces. -/
def utf8Valid : Bytes → Bool
  | [] => true
  | b0 :: rest =>
    if b0 < 0x80 then utf8Valid rest
    else if 0xC2 ≤ b0 ∧ b0 ≤ 0xDF then
      match rest with
      | b1 :: r => (0x80 ≤ b1 && b1 ≤ 0xBF) && utf8Valid r
      | _ => false
    else if 0xE0 ≤ b0 ∧ b0 ≤ 0xEF then
      match rest with
      | b1 :: b2 :: r =>
        ((if b0 = 0xE0 then 0xA0 else 0x80) ≤ b1 && b1 ≤ (if b0 = 0xED then 0x9F else 0xBF)) &&
        (0x80 ≤ b2 && b2 ≤ 0xBF) && utf8Valid r
      | _ => false
    else if 0xF0 ≤ b0 ∧ b0 ≤ 0xF4 then
      match rest with
      | b1 :: b2 :: b3 :: r =>
        ((if b0 = 0xF0 then 0x90 else 0x80) ≤ b1 && b1 ≤ (if b0 = 0xF4 then 0x8F else 0xBF)) &&
        (0x80 ≤ b2 && b2 ≤ 0xBF) && (0x80 ≤ b3 && b3 ≤ 0xBF) && utf8Valid r
      | _ => false
    else false

/-! ### the encoding relation -/

/-- what is being encoded: one value of an element type (`inVec` = it is a vector element; only the
canonical `'@type'` tag of the value depends on it), the elements of a vector, one field, or the
remaining fields `args` of an object whose dict is `whole`. -/
inductive Item
  | one (e : ETy) (inVec : Bool) (v : Val)
  | many (e : ETy) (vs : List Val)
  | field (a : Arg) (v : Val)
  | body (args : List Arg) (whole : Fields)

/-- `Enc T P item bs`: `bs` is the TL encoding of the well-typed canonical value `item` under the
schema table `T`.  Values are in the canonical form the parser returns: `int128/int256` as hex strings,
objects as dicts holding exactly the present fields in declaration order, tagged with the constructor
name (bare vector elements carry no tag).  `P` is a side condition imposed on the content of every
`bytes`/`string` field (`fun _ => True` for the plain format). -/
inductive Enc (T : Table) (P : Bytes → Prop) : Item → Bytes → Prop
  | int {iv i} : -2^31 ≤ i → i < 2^31 → Enc T P (.one .int iv (.int i)) (intLE 4 i)
  | long {iv i} : -2^63 ≤ i → i < 2^63 → Enc T P (.one .long iv (.int i)) (intLE 8 i)
  | nat {iv i} : 0 ≤ i → i < 2^32 → Enc T P (.one .nat iv (.int i)) (intLE 4 i)
  | int128 {iv b} : b.length = 16 → Bytes.WF b → Enc T P (.one .int128 iv (.hex b)) b
  | int256 {iv b} : b.length = 32 → Bytes.WF b → Enc T P (.one .int256 iv (.hex b)) b
  | boolT {iv} : Enc T P (.one .bool iv (.bool true)) (natToLE 4 boolTrueId)
  | boolF {iv} : Enc T P (.one .bool iv (.bool false)) (natToLE 4 boolFalseId)
  | bytes {iv b} : Bytes.WF b → b.length < 2^24 → P b → Enc T P (.one .bytes iv (.bytes b)) (encodeBytes b)
  | string {iv b} : Bytes.WF b → utf8Valid b = true → b.length < 2^24 → P b →
      Enc T P (.one .string iv (.str b)) (encodeBytes b)
  /-- bare reference: the fields of the named constructor, no id. -/
  | bare {iv n c fs bs} : T.byName n = some c → fs = canonFields c.args fs → Enc T P (.body c.args fs) bs →
      Enc T P (.one (.bare n) iv (.obj (if iv then none else some c.name) fs)) bs
  /-- boxed reference: any constructor of the class, prefixed by its id. -/
  | boxed {iv cl c fs bs} : c ∈ T.byClass cl → T.byName c.name = some c → fs = canonFields c.args fs →
      Enc T P (.body c.args fs) bs →
      Enc T P (.one (.boxed cl) iv (.obj (some c.name) fs)) (natToLE 4 c.id ++ bs)
  | manyNil {e} : Enc T P (.many e []) []
  | manyCons {e v vs b1 b2} : Enc T P (.one e true v) b1 → Enc T P (.many e vs) b2 →
      Enc T P (.many e (v :: vs)) (b1 ++ b2)
  | scalar {a v bs} : a.vec = false → Enc T P (.one a.ty false v) bs → Enc T P (.field a v) bs
  /-- `vs.length ≤ bs.length`: every element occupies at least one byte (the parser rejects a count
  larger than the remaining input). -/
  | vector {a vs bs} : a.vec = true → vs.length < 2^32 → vs.length ≤ bs.length → Enc T P (.many a.ty vs) bs →
      Enc T P (.field a (.list vs)) (natToLE 4 vs.length ++ bs)
  | bodyNil {whole} : Enc T P (.body [] whole) []
  | bodyReq {a as whole v b1 b2} : a.cond = none → whole.lookup a.name = some v →
      Enc T P (.field a v) b1 → Enc T P (.body as whole) b2 → Enc T P (.body (a :: as) whole) (b1 ++ b2)
  | bodyOn {a as whole fl bit m v b1 b2} : a.cond = some (fl, bit) → whole.lookup fl = some (.int m) → 0 ≤ m →
      m.toNat.testBit bit = true → whole.lookup a.name = some v →
      Enc T P (.field a v) b1 → Enc T P (.body as whole) b2 → Enc T P (.body (a :: as) whole) (b1 ++ b2)
  | bodyOff {a as whole fl bit m bs} : a.cond = some (fl, bit) → whole.lookup fl = some (.int m) → 0 ≤ m →
      m.toNat.testBit bit = false → whole.lookup a.name = none →
      Enc T P (.body as whole) bs → Enc T P (.body (a :: as) whole) bs

/-- `tlEncode T P c v bs`: `bs` is the boxed TL serialisation of the object `v` of constructor `c`. -/
def tlEncode (T : Table) (P : Bytes → Prop) (c : Ctor) (v : Val) (bs : Bytes) : Prop :=
  ∃ fs body, v = .obj (some c.name) fs ∧ fs = canonFields c.args fs ∧ Enc T P (.body c.args fs) body ∧
    bs = natToLE 4 c.id ++ body

end TonVerif.Spec.Tl
