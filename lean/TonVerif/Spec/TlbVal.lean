/-
The TL-B encoding of each typed value a Builder can store (`Model.TVal`), in terms of the primitive
encodings of `Spec/TlbPrim.lean`, plus the range / capacity conditions ("fits") of C07.
No Mathlib.
-/
import TonVerif.Model.Builder
import TonVerif.Spec.TlbPrim

namespace TonVerif.Spec.Tlb
open TonVerif TonVerif.Model
variable {R : Type}

/-- the library's address objects as TL-B `MsgAddress` values: `ExternalAddress(val, len)` carries its
bits as an integer, `Anycast(depth, rewrite_pfx)` its prefix as an integer, `hash_part` is a byte string. -/
def addrOf : Addr → MsgAddress
  | .none => .none
  | .ext len val => .extern len (uintBits len val.toNat)
  | .std any wc h => .std (any.map fun dp => (dp.1, uintBits dp.1 dp.2.toNat)) wc (bytesBits h)

/-- data bits of the TL-B encoding of a typed value -/
def enc : TVal R → Bits
  | .uint n v => uintBits n v.toNat
  | .int n v => intBits n v
  | .varUint k v => varUIntBits k v.toNat
  | .varInt k v => varIntBits k v
  | .coins v => gramsBits v.toNat
  | .bit b => [b]
  | .bits bs => bs
  | .bytes bs => bytesBits bs
  | .string bs => bytesBits bs
  | .ref _ => []
  | .maybeRef r => maybeRefBits r
  | .dict r => maybeRefBits r
  | .addr a => addrBits (addrOf a)

/-- references of the TL-B encoding of a typed value -/
def refsOf : TVal R → List R
  | .ref r => [r]
  | .maybeRef r => maybeRefRefs r
  | .dict r => maybeRefRefs r
  | _ => []

/-- the value is representable in the stated width (the check C07 demands of every store).
Width 0 is outside the library's domain (`int2ba` refuses it), `store_string` is limited to 127 bytes,
anycast depth is checked against its 5-bit field (TL-B additionally demands `≤ 30`, see `MsgAddress.Valid`). -/
def InRange : TVal R → Prop
  | .uint n v => 0 < n ∧ FitsUint n v
  | .int n v => 0 < n ∧ FitsInt n v
  | .varUint k v => 0 < k ∧ 0 ≤ v ∧ byteLenU v.toNat < 2 ^ k
  | .varInt k v => 0 < k ∧ byteLenS v < 2 ^ k
  | .coins v => 0 ≤ v ∧ byteLenU v.toNat < 16
  | .string bs => bs.length ≤ 127
  | .addr (.ext len val) => len < 512 ∧ FitsUint len val
  | .addr (.std any wc _) =>
      (match any with | Option.none => True | some (d, p) => 1 ≤ d ∧ d < 32 ∧ FitsUint d p) ∧ FitsInt 8 wc
  | _ => True

/-- `store tv` must succeed on builder `b` exactly in this case -/
def Fits (tv : TVal R) (b : Builder R) : Prop :=
  InRange tv ∧ b.bits.length + (enc tv).length ≤ 1023 ∧ b.refs.length + (refsOf tv).length ≤ 4

/-- well-formedness of the Python VALUES that the type system / constructors guarantee and the library
does not re-check: `bytes` elements are `< 256`, an `Address` hash part has 32 bytes; a string read back
with `load_string(len)` must be non-empty (`load_string(0)` means "everything that is left"). -/
def WF : TVal R → Prop
  | .bytes bs => Bytes.WF bs
  | .string bs => Bytes.WF bs ∧ bs ≠ []
  | .addr (.std _ _ h) => Bytes.WF h ∧ h.length = 32
  | _ => True

end TonVerif.Spec.Tlb
