/-
Spec: an independent STRICT reader of the TON bag-of-cells wire format, transcribed from
`crypto/tl/boc.tlb`

  serialized_boc#b5ee9c72 has_idx:(## 1) has_crc32c:(## 1) has_cache_bits:(## 1) flags:(## 2) { flags = 0 }
    size:(## 3) { size <= 4 } off_bytes:(## 8) { off_bytes <= 8 }
    cells:(##(size * 8)) roots:(##(size * 8)) { roots >= 1 } absent:(##(size * 8)) { roots + absent <= cells }
    tot_cells_size:(##(off_bytes * 8)) root_list:(roots * ##(size * 8))
    index:has_idx?(cells * ##(off_bytes * 8)) cell_data:(tot_cells_size * [ uint8 ]) crc32c:has_crc32c?uint32

the cell record layout of tvm.pdf §3.1.4 (d1 = r + 8s + 16h + 32l, d2 = ⌊b/8⌋+⌈b/8⌉, data with completion tag,
reference indices of `size` bytes) and the checks of the reference node (`BagOfCells::Info::parse_serialized_header`,
`BagOfCells::deserialize`, `CellSerializationInfo`):

  * 1 ≤ size ≤ 4, 1 ≤ off_bytes ≤ 8, flags = 0, has_cache_bits only with has_idx;
  * 1 ≤ roots ≤ cells, absent = 0, every root index < cells;
  * index entries are the cumulative END offsets of the cell records (entry ≫ 1 when has_cache_bits, the low bit
    being the per-cell cache flag); the last one equals tot_cells_size;
  * the cell records fill cell_data exactly; nothing follows cell_data except the CRC when has_crc32c;
  * crc32c = CRC-32C (little-endian) of every byte before it;
  * per record: r ≤ 4; when d2 is odd the last data byte carries the completion tag and is not an overlong
    encoding (last & 0x7f ≠ 0); an exotic cell has at least 8 data bits and a known type byte;
  * every reference index is > the cell's own index and < cells;
  * the level bits of d1 equal the level mask computed from the cell's type, data and children (Spec/Cell.lean);
  * no two records describe the same cell (equal representation hash).

Not supported (rejected): stored hashes (h = 1) and absent cells — the library's emitter never writes them; the
foreign-input side of the parser (C05) has its own encoder covering them.

NOT derived from the library's parser.  `H` is the hash function (SHA-256 in the driver).
-/
import TonVerif.Basic
import TonVerif.Spec.Cell
import TonVerif.Spec.Crc
import Std.Data.HashSet

namespace TonVerif.Spec.Boc
open TonVerif

/-! ### byte-level layer -/

/-- the first `n` bytes and the rest; `none` if fewer than `n` bytes are left (cost O(n), not O(|bs|)) -/
def takeN (n : Nat) (bs : Bytes) : Option (Bytes × Bytes) :=
  let a := bs.take n
  if a.length == n then some (a, bs.drop n) else none

/-- big-endian unsigned integer of `n` bytes -/
def uintBE (n : Nat) (bs : Bytes) : Option (Nat × Bytes) :=
  (takeN n bs).map (fun p => (natOfBE p.1, p.2))

/-- `count` big-endian integers of `width` bytes each -/
def uintsBE : Nat → Nat → Bytes → Option (List Nat × Bytes)
  | 0, _, bs => some ([], bs)
  | k + 1, w, bs => do
    let (v, r) ← uintBE w bs
    let (vs, r') ← uintsBE k w r
    pure (v :: vs, r')

/-- a cell record as read from the wire -/
structure SRec where
  d1 : Nat
  bits : Bits          -- data bits, completion tag removed
  refs : List Nat
  deriving Repr, DecidableEq

def SRec.exotic (r : SRec) : Bool := r.d1 / 8 % 2 == 1
def SRec.levelMask (r : SRec) : Nat := r.d1 / 32

/-- remove the completion tag: trailing zeros and the last one bit -/
def stripTag (bits : Bits) : Bits := ((bits.reverse.dropWhile (fun b => !b)).drop 1).reverse

/-- one cell record: the record, its length in bytes, the remaining input -/
def readCell (size : Nat) (bs : Bytes) : Option (SRec × Nat × Bytes) := do
  let (d1, r) ← uintBE 1 bs
  let (d2, r) ← uintBE 1 r
  if d1 % 8 > 4 then none else
  if d1 / 16 % 2 == 1 then none else
  let (data, r) ← takeN (d2 / 2 + d2 % 2) r
  let bits ← (if d2 % 2 == 1 then
      (match data.getLast? with
       | some last => if last % 128 == 0 then none else some (stripTag (bytesToBits data))
       | none => none)
    else some (bytesToBits data))
  if d1 / 8 % 2 == 1 && bits.length < 8 then none else
  let (refs, r) ← uintsBE (d1 % 8) size r
  pure (⟨d1, bits, refs⟩, 2 + (d2 / 2 + d2 % 2) + (d1 % 8) * size, r)

/-- exactly `count` records filling the input; each with its length in bytes -/
def readCells : Nat → Nat → Bytes → Option (List (SRec × Nat))
  | 0, _, bs => if bs.isEmpty then some [] else none
  | k + 1, size, bs => do
    let (c, len, r) ← readCell size bs
    let cs ← readCells k size r
    pure ((c, len) :: cs)

def endOffsetsFrom (acc : Nat) : List Nat → List Nat
  | [] => []
  | l :: ls => (acc + l) :: endOffsetsFrom (acc + l) ls

/-- cumulative end offsets of records of the given lengths -/
def endOffsets (lens : List Nat) : List Nat := endOffsetsFrom 0 lens

/-- references strictly forward and in range -/
def refsForwardN (n : Nat) (recs : List SRec) : Bool :=
  recs.zipIdx.all (fun (ri : SRec × Nat) => ri.1.refs.all (fun j => ri.2 < j && j < n))

def refsForward (recs : List SRec) : Bool := refsForwardN recs.length recs

/-- CRC-32C, little-endian, as a byte list -/
def crc32cLE (body : Bytes) : Bytes :=
  (Spec.le32 (Spec.crc32c (body.map (BitVec.ofNat 8)))).map BitVec.toNat

structure Flat where
  recs : List SRec
  roots : List Nat
  deriving Repr, DecidableEq

/-- the header fields up to and including the root list -/
structure Header where
  hasIdx : Bool
  hasCrc : Bool
  hasCache : Bool
  size : Nat
  off : Nat
  cells : Nat
  tot : Nat
  rootList : List Nat
  deriving Repr, DecidableEq

def readHeader (bs : Bytes) : Option (Header × Bytes) := do
  let (magic, r) ← takeN 4 bs
  if magic != [0xb5, 0xee, 0x9c, 0x72] then none else
  let (fl, r) ← uintBE 1 r
  let hasIdx := fl / 128 % 2 == 1
  let hasCrc := fl / 64 % 2 == 1
  let hasCache := fl / 32 % 2 == 1
  let size := fl % 8
  if fl / 8 % 4 != 0 then none else                    -- flags = 0
  if size < 1 || size > 4 then none else
  if hasCache && !hasIdx then none else
  let (off, r) ← uintBE 1 r
  if off < 1 || off > 8 then none else
  let (cells, r) ← uintBE size r
  let (roots, r) ← uintBE size r
  let (absent, r) ← uintBE size r
  if roots < 1 || absent != 0 || roots > cells then none else
  let (tot, r) ← uintBE off r
  let (rootList, r) ← uintsBE roots size r
  if !rootList.all (· < cells) then none else
  pure (⟨hasIdx, hasCrc, hasCache, size, off, cells, tot, rootList⟩, r)

/-- index, cell data, CRC; `whole` = the complete input (the CRC covers everything before it) -/
def readBody (h : Header) (whole r : Bytes) : Option Flat := do
  let (index, r) ← (if h.hasIdx then uintsBE h.cells h.off r else some ([], r))
  let (cellData, r) ← takeN h.tot r
  let cs ← readCells h.cells h.size cellData
  if h.hasIdx && index.map (fun e => if h.hasCache then e / 2 else e) != endOffsets (cs.map (·.2)) then none else
  if !(if h.hasCrc then r.length == 4 && r == crc32cLE (whole.take (whole.length - 4)) else r.isEmpty) then none else
  let recs := cs.map (·.1)
  if !refsForward recs then none else
  pure ⟨recs, h.rootList⟩

def strictFlat (bs : Bytes) : Option Flat := do
  let (h, r) ← readHeader bs
  readBody h bs r

/-! ### semantic layer: level masks, duplicates, the denoted cells -/

/-- the denoted cell: `exotic` flag, data bits, children -/
inductive SCell where
  | mk (exotic : Bool) (bits : Bits) (refs : List SCell)
  deriving Repr

/-- tabulated spec values of an evaluated cell: mask, hash and depth at levels 0..4 -/
structure SVal where
  mask : Nat
  hashes : List Bytes
  depths : List Nat

def SVal.toSInfo (v : SVal) : Spec.SInfo :=
  { mask := v.mask, hashAt := fun l => v.hashes.getD (min l 4) [], depthAt := fun l => v.depths.getD (min l 4) 0 }

def tabulate (s : Spec.SInfo) : SVal :=
  ⟨s.mask, (List.range 5).map s.hashAt, (List.range 5).map s.depthAt⟩

/-- representation hash -/
def SVal.hash (v : SVal) : Bytes := v.hashes.getD 3 []

def recKind (r : SRec) : Option Spec.Kind :=
  if !r.exotic then some .ordinary
  else
    let t := natOfBits (r.bits.take 8)
    if t == 1 then some .pruned else if t == 2 then some .library
    else if t == 3 then some .merkleProof else if t == 4 then some .merkleUpdate else none

/-- evaluate one record; `acc[k]` holds record `n-1-k` (records are evaluated last to first) -/
def evalStep (H : Bytes → Bytes) (n : Nat) (acc : Array (SVal × SCell)) (r : SRec) : Option (Array (SVal × SCell)) := do
  let kids ← r.refs.mapM (fun j => if j < n then acc[n - 1 - j]? else none)
  let k ← recKind r
  let s := Spec.node H k r.bits (kids.map (fun p => p.1.toSInfo))
  if s.mask != r.levelMask then none else
  pure (acc.push (tabulate s, SCell.mk r.exotic r.bits (kids.map (·.2))))

def evalRecs (H : Bytes → Bytes) (recs : List SRec) : Option (Array (SVal × SCell)) :=
  recs.reverse.foldlM (evalStep H recs.length) #[]

/-- no two equal keys -/
def noDup (keys : List Nat) : Bool :=
  (keys.foldl (fun (st : Std.HashSet Nat × Bool) k => (st.1.insert k, st.2 && !st.1.contains k)) (∅, true)).2

structure Parsed where
  flat : Flat
  vals : Array (SVal × SCell)      -- `vals[k]` = record `n-1-k`

def strictRun (H : Bytes → Bytes) (bs : Bytes) : Option Parsed := do
  let f ← strictFlat bs
  let vals ← evalRecs H f.recs
  if !noDup (vals.toList.map (fun p => natOfBE p.1.hash)) then none else
  pure ⟨f, vals⟩

/-- THE STRICT READER: the list of root cells denoted by a conforming serialisation, `none` otherwise. -/
def strictParse (H : Bytes → Bytes) (bs : Bytes) : Option (List SCell) := do
  let p ← strictRun H bs
  p.flat.roots.mapM (fun i => (p.vals[p.flat.recs.length - 1 - i]?).map (·.2))

end TonVerif.Spec.Boc
