/-
Spec: bit-at-a-time definitions of CRC-16/XMODEM and CRC-32C (Castagnoli).

* CRC-16/XMODEM: polynomial 0x1021, initial value 0, no reflection, no final xor;
  the library returns the 16-bit value big-endian.
* CRC-32C: reflected polynomial 0x82F63B78, initial value 0xFFFFFFFF, final xor
  0xFFFFFFFF, bits processed LSB first.

These are the textbook shift-register definitions (one message bit per step).
No tables occur here.
-/
namespace TonVerif.Spec

/-- one shift-register step of CRC-16/XMODEM (MSB first). -/
def step16 (c : BitVec 16) : BitVec 16 :=
  if c.msb then (c <<< 1) ^^^ 0x1021#16 else c <<< 1

def iter (f : α → α) : Nat → α → α
  | 0, x => x
  | n+1, x => iter f n (f x)

/-- feed one message byte: xor it into the top byte, then 8 bit-steps. -/
def byte16 (c : BitVec 16) (b : BitVec 8) : BitVec 16 :=
  iter step16 8 (c ^^^ ((b.zeroExtend 16) <<< 8))

def crc16 (data : List (BitVec 8)) : BitVec 16 :=
  data.foldl byte16 0#16

/-- one shift-register step of reflected CRC-32C (LSB first). -/
def step32 (c : BitVec 32) : BitVec 32 :=
  if c.getLsbD 0 then (c >>> 1) ^^^ 0x82F63B78#32 else c >>> 1

def byte32 (c : BitVec 32) (b : BitVec 8) : BitVec 32 :=
  iter step32 8 (c ^^^ (b.zeroExtend 32))

/-- the CRC-32C value (after the final inversion). -/
def crc32c (data : List (BitVec 8)) : BitVec 32 :=
  (data.foldl byte32 0xFFFFFFFF#32) ^^^ 0xFFFFFFFF#32

/-- big-endian bytes of a 16-bit value. -/
def be16 (v : BitVec 16) : List (BitVec 8) :=
  [(v >>> 8).truncate 8, v.truncate 8]

def le32 (v : BitVec 32) : List (BitVec 8) :=
  [v.truncate 8, (v >>> 8).truncate 8, (v >>> 16).truncate 8, (v >>> 24).truncate 8]

def be32 (v : BitVec 32) : List (BitVec 8) := (le32 v).reverse

end TonVerif.Spec
