/-
Meaning of what the stateful-method translator (harness/translate/pymeth.py) emits in addition to PyInt / PyBytes / PyObj:
  * the shape of a translated method  `args → σ → σ × Option α`: the state of `self` AFTER the call (also when the call
    raised: partial writes stay) and the returned value, `none` = the Python code raised (which exception is not distinguished);
    `bindS` / `bindO` / `zoom` / `forS` are sequencing, a partial built-in, a call on a sub-object, a `for` loop;
  * the trusted reading of the `bitarray` calls of builder.py / slice.py / tvm_bitarray.py: `int2ba`, `ba2int`, `bits[i]`,
    `del bits[a:b]`, `del bits[i]`, `x if x else d` on an optional int (`slice.start` / `slice.stop`).
Hand-written, core Lean only.  Validated against CPython / bitarray on every change of the source, the translator or this
file (harness/translate/bsops.py `validate`: Lean evaluation of the regenerated methods = the library on the same scripts).
-/
import TonVerif.Basic
import TonVerif.PyBytes

namespace TonVerif.Py

/-- sequencing: run `k` on the state and value of a call that returned; a call that raised ends the method with its state. -/
@[inline] def bindS {σ α β : Type} (r : σ × Option α) (k : σ → α → σ × Option β) : σ × Option β :=
  match r.2 with
  | none => (r.1, none)
  | some a => k r.1 a

/-- a built-in that may raise (`none`), evaluated in state `self` (which it does not change). -/
@[inline] def bindO {σ α β : Type} (o : Option α) (self : σ) (k : α → σ × Option β) : σ × Option β :=
  match o with
  | none => (self, none)
  | some a => k a

/-- a call on a LOCAL object (`builder = Builder()...; builder.store_uint(..)`): `k` gets the local's new state and the value;
if the call raised, the method ends with `self` as it is. -/
@[inline] def bindL {σ τ α β : Type} (r : τ × Option α) (self : σ) (k : τ → α → σ × Option β) : σ × Option β :=
  match r.2 with
  | none => (self, none)
  | some a => k r.1 a

/-- a mutating call on the sub-object held in an attribute: `set` writes the sub-object's new state back. -/
@[inline] def zoom {σ τ α : Type} (r : τ × Option α) (set : τ → σ) : σ × Option α := (set r.1, r.2)

/-- `for x in xs: body` where the body is a state transformer that may raise. -/
def forS {σ ι : Type} : List ι → σ → (ι → σ → σ × Option Unit) → σ × Option Unit
  | [], self, _ => (self, some ())
  | x :: xs, self, f => bindS (f x self) fun self _ => forS xs self f

/-- `int2ba(value, length, signed=…)` of bitarray.util: big-endian, two's complement when signed.
`none` = ValueError (`length must be > 0`) / OverflowError (value not in range). -/
def int2ba? (v : Int) (n : Nat) (signed : Bool) : Option Bits :=
  if n = 0 then none
  else if signed then
    if v < -(2 ^ (n - 1) : Int) ∨ v ≥ (2 ^ (n - 1) : Int) then none
    else some (natToBits n (if v ≥ 0 then v.toNat else (v + (2 ^ n : Int)).toNat))
  else
    if v < 0 ∨ v.toNat ≥ 2 ^ n then none else some (natToBits n v.toNat)

/-- `ba2int(bits, signed=False)`; `none` = ValueError (`non-empty bitarray expected`). -/
def ba2intU? (bs : Bits) : Option Nat := if bs = [] then none else some (natOfBits bs)

/-- `ba2int(bits, signed=True)` (two's complement). -/
def ba2intS? (bs : Bits) : Option Int :=
  match bs with
  | [] => none
  | sign :: _ => some (if sign then (natOfBits bs : Int) - (2 ^ bs.length : Int) else natOfBits bs)

/-- `x if x else d` / `x or d` for an optional non-negative int `x` (`None` and `0` are falsy). -/
def optOr (x : Option Nat) (d : Nat) : Nat :=
  match x with
  | some v => if v = 0 then d else v
  | none => d

/-- `bitarray.append(v)` for an int `v`: `none` = ValueError (`bit must be 0 or 1`). -/
def bitOfNat? (v : Nat) : Option Bool := if v = 0 then some false else if v = 1 then some true else none

/-- `bitarray.__delitem__(slice(start, stop))` for non-negative bounds (`None` = from the beginning / to the end);
clamps to the length, never raises, deletes nothing when `stop ≤ start`. -/
def delSlice (bits : Bits) (start stop : Option Nat) : Bits :=
  let a := start.getD 0
  let b := stop.getD bits.length
  if b ≤ a then bits else bits.take a ++ bits.drop b

/-- `bitarray.__delitem__(i)` for `0 ≤ i`; `none` = IndexError. -/
def delAt? (bits : Bits) (i : Nat) : Option Bits := if i < bits.length then some (bits.eraseIdx i) else none

/-! ### loops with loop-carried locals, aliases of `self` (snake strings); a slice by a possibly negative int is `Py.sliceI` of PyBytes.lean -/

/-- `for x in xs: body` where the body rebinds ONE outer local (`acc`) and may change the state / raise. -/
def forL {σ ι τ : Type} : List ι → σ → τ → (ι → σ → τ → σ × Option τ) → σ × Option τ
  | [], self, acc, _ => (self, some acc)
  | x :: xs, self, acc, f => bindS (f x self acc) fun self acc => forL xs self acc f

/-- `while True: body` with loop-carried locals `acc`: the body either leaves the method (`Sum.inr v` = `return v`; `none` = it
raised) or ends an iteration with new locals (`Sum.inl acc`).  `fuel` = the DECLARED bound on the number of iterations (a loop
variant is not visible in the source); exhausted fuel counts as a raise. -/
def whileS {σ τ β : Type} : Nat → σ → τ → (σ → τ → σ × Option (τ ⊕ β)) → σ × Option β
  | 0, self, _, _ => (self, none)
  | fuel + 1, self, acc, body =>
    match body self acc with
    | (s, none) => (s, none)
    | (s, some (.inr b)) => (s, some b)
    | (s, some (.inl acc')) => whileS fuel s acc' body

/-- a local that is an alias of `self` (`none`: after `x = self`) or an object of its own (`some st`): its current state -/
@[inline] def curOf {σ : Type} (cur : Option σ) (self : σ) : σ := cur.getD self

/-- a mutating call `f` on such a local: on the alias it changes `self` (a raise ends the method with the callee's state), on an
own object only that object (a raise ends the method with `self` as it is). -/
@[inline] def bindA {σ α β : Type} (f : σ → σ × Option α) (cur : Option σ) (self : σ) (k : Option σ → σ → α → σ × Option β) :
    σ × Option β :=
  match cur with
  | none => match f self with
    | (s, some a) => k none s a
    | (s, none) => (s, none)
  | some st => match f st with
    | (st', some a) => k (some st') self a
    | (_, none) => (self, none)

/-- `range(a, b, s)` for a positive literal step `s` -/
def rangeStep (a b s : Nat) : List Nat := (List.range ((b - a + s - 1) / s)).map fun k => a + k * s

/-! ### argument forms of `bitarray.append / extend` and `int(str)` (a str travels as its UTF-8 bytes; the readings below are for
ASCII text - a byte ≥ 128 is refused, which is what CPython does except for non-ASCII whitespace / digits: outside the model) -/

/-- `bitarray.append(v)` for an int `v` that may be negative -/
def bitOfInt? (v : Int) : Option Bool := if v = 0 then some false else if v = 1 then some true else none

/-- `len(s)` of a str: its characters (UTF-8 continuation bytes do not count) -/
def strLen (s : Bytes) : Nat := (s.filter fun c => c / 64 ≠ 2).length

/-- ASCII whitespace as `str.isspace` / `Py_UNICODE_ISSPACE` see it -/
def isSpace (c : Nat) : Bool := (9 ≤ c && c ≤ 13) || (28 ≤ c && c ≤ 32)

/-- `bitarray.extend('..')`: `0` / `1` are bits, whitespace and `_` are skipped, anything else is a ValueError (nothing appended) -/
def bitsOfStr? : Bytes → Option Bits
  | [] => some []
  | c :: cs =>
    if c = 48 then (bitsOfStr? cs).map (false :: ·)
    else if c = 49 then (bitsOfStr? cs).map (true :: ·)
    else if isSpace c || c = 95 then bitsOfStr? cs
    else none

/-- `bitarray.extend([..])` for a list / tuple of ints (bools are ints): every item 0 / 1, otherwise ValueError (nothing appended) -/
def bitsOfInts? (xs : List Int) : Option Bits := xs.mapM bitOfInt?

/-- the digits of a decimal literal: single `_` only BETWEEN digits -/
def digits? : Bytes → Bool → Nat → Option Nat      -- rest, "a digit came just before", value so far
  | [], prev, acc => if prev then some acc else none
  | c :: cs, prev, acc =>
    if 48 ≤ c ∧ c ≤ 57 then digits? cs true (acc * 10 + (c - 48))
    else if c = 95 ∧ prev then (match cs with | d :: _ => if 48 ≤ d ∧ d ≤ 57 then digits? cs false acc else none | [] => none)
    else none

/-- `int('..')`: surrounding whitespace, an optional sign, a decimal literal; `none` = ValueError -/
def intOfStr? (s : Bytes) : Option Int :=
  let t := ((s.dropWhile isSpace).reverse.dropWhile isSpace).reverse
  match t with
  | 43 :: r => (digits? r false 0).map fun n => (n : Int)
  | 45 :: r => (digits? r false 0).map fun n => -(n : Int)
  | r => (digits? r false 0).map fun n => (n : Int)

/-- the state of a `Slice`: the bits not consumed yet, ALL references of the cell, and how many of them were consumed. -/
structure SliceSt (R : Type) where
  bits : Bits
  refs : List R
  ref_offset : Nat
  deriving Repr

/-- what `store_cell` reads of its argument: `cell.bits`, `cell.refs`. -/
structure CellV (R : Type) where
  bits : Bits
  refs : List R
  deriving Repr

/-- `Anycast(depth, rewrite_pfx)` -/
structure AnycastV where
  depth : Nat
  rewrite_pfx : Int
  deriving Repr

/-- what `store_address` reads of an internal `Address`: `wc`, `hash_part`, `anycast` (`None` or an `Anycast`). -/
structure AddrV where
  wc : Int
  hash_part : Bytes
  anycast : Option AnycastV
  deriving Repr

/-- `ExternalAddress(external_address, len)` -/
structure ExtAddrV where
  external_address : Int
  len : Nat
  deriving Repr

/-- what `load_address` / `preload_address` return: `None`, an `ExternalAddress`, an `Address` -/
inductive AddrR where
  | none
  | ext (a : ExtAddrV)
  | std (a : AddrV)
  deriving Repr

end TonVerif.Py
