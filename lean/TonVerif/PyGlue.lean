/-
Meaning of the library calls the glue translator (harness/translate/hashmapglue.py, for HashMap.set / serialize / parse / from_cell and
Slice.load_dict …) emits calls to, in addition to PyHm.lean.  Hand-written, core Lean only; the DECLARED (trusted) reading of

  * `int(s, 2)` on a '0'/'1' string (ValueError on the empty string); only base 2 is read;
  * `Builder().store_address(a).end_cell().begin_parse().load_uint(w)` : the hand models `BOp.storeAddress` / `SOp.loadUint`
    (Model/Builder.lean; tied to builder.py / slice.py by C05 / C06), `none` = one of the calls raises;
  * `Slice.preload_bit()` / `preload_ref()` : the first remaining bit / reference without consuming it (IndexError = `none`).
-/
import TonVerif.PyHm
import TonVerif.PyObj

namespace TonVerif.Py
open TonVerif TonVerif.Model

def intOfBits2? (s : Bits) (base : Nat) : Option Nat := if base = 2 then intOfBits? s else none

def addrKey? (a : Addr) (w : Nat) : Option Int :=
  let r := BOp.storeAddress (R := Unit) a Builder.empty
  if r.2 then (SOp.loadUint (R := Unit) w ⟨r.1.bits, []⟩).2 else none

def Slice.preloadBit? (s : Slice) : Option Bool := s.bits.head?
def Slice.preloadRef? (s : Slice) : Option Cell := s.refs.head?

end TonVerif.Py
