/-
An iteration-counting WRITER for INSTRUMENTED copies of regenerated loop programs (harness/translate/boccnt.py): the copy has the same
text as the regenerated function (Generated/BocCells.lean) but every `Py.loop?` is a `Py.loopW? k` that records one tick of counter `k`
per iteration STARTED (kept when the iteration, or anything after it, raises), and the functions return `Py.W α` = the `Option`
value together with the ticks.  `Option` computations (non-instrumented callees, list reads, the callback) neither count nor raise
differently: they are lifted by `>>==` (`Py.ToW`) or by the coercion at a tail position.

Hand-written, core Lean only.  That an instrumented copy computes the same VALUE as the regenerated function is PROVED
(Proofs/SrcBocCnt.lean), so only the placement of the ticks (visible in the generated text: the `k` of each `loopW?`) is by reading.
-/
import TonVerif.PyBytes

namespace TonVerif.Py

/-- `t k` = iterations started by the loop with number `k` -/
abbrev Ticks := Nat → Nat

/-- a computation that may raise (`none`), with the loop iterations it started -/
def W (α : Type) : Type := Option α × Ticks

namespace W

def ret {α : Type} (a : α) : W α := (some a, fun _ => 0)
def raise {α : Type} : W α := (none, fun _ => 0)
def lift {α : Type} (o : Option α) : W α := (o, fun _ => 0)
/-- one iteration of loop `k` starts -/
def tick (k : Nat) : W Unit := (some (), fun j => if j = k then 1 else 0)

def bind {α β : Type} (x : W α) (f : α → W β) : W β :=
  match x.1 with
  | none => (none, x.2)
  | some a => ((f a).1, fun j => x.2 j + (f a).2 j)

instance {α : Type} : Coe (Option α) (W α) := ⟨lift⟩

end W

/-- what `>>==` accepts on its left: an `Option` (lifted, no ticks) or a `W` -/
class ToW (μ : Type → Type) where
  toW : {α : Type} → μ α → W α

instance : ToW Option := ⟨W.lift⟩
instance : ToW W := ⟨id⟩

def W.bnd {μ : Type → Type} [ToW μ] {α β : Type} (x : μ α) (f : α → W β) : W β := W.bind (ToW.toW x) f

@[inherit_doc] infixl:55 " >>== " => W.bnd

/-- `Py.loop?` that ticks counter `k` once per iteration started -/
def loopW? {ι σ : Type} (k : Nat) : List ι → σ → (ι → σ → W (σ × Bool)) → W σ
  | [], s, _ => W.ret s
  | x :: xs, s, f => W.bind (W.tick k) fun _ => W.bind (f x s) fun r => if r.2 then W.ret r.1 else loopW? k xs r.1 f

end TonVerif.Py
