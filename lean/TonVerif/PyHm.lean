/-
Meaning of the library objects and Python built-ins that the recursive-program translator (harness/translate/pyrec.py, used by
harness/translate/hashmapsrc.py for pytoniq_core/boc/hashmap/{parse,utils}.py) emits calls to, in addition to PyInt.lean.
Hand-written, core Lean only.  This file IS the translator's declared (trusted) reading of

  * a `Slice` (slice.py): its cell type, the bits not yet consumed, the references not yet consumed (`refs[ref_offset:]`);
    `load_bit`, `load_bits(n)`, `load_uint(l)`, `load_ref`, `Cell.begin_parse()`; `none` = the call raises
    (IndexError on `bits[0]` / `refs[ref_offset]`, TvmBitarrayUnderflowException of `del bits[:n]`, ValueError of `ba2int(bitarray())`);
  * a `Builder` (builder.py): the bits and references stored so far; `store_bit_int`, `store_uint(v, l)`, `store_ref`,
    `end_cell()`; `none` = TvmBitarrayOverflowException (> 1023 bits), 'builder refs overflow' (a fifth reference),
    `int2ba` refusing the value (`Model.BOp.int2baU`); `end_cell()` is the tree cell (`Cell(...)`'s own limits are C01's);
  * a Python `dict` = association list in insertion order (`d[k] = v` replaces in place, else appends);
  * '0'/'1' strings and bitarrays = `Bits`; `sorted(list of '0'/'1' strings)`, `str.find`, `bin(k)[2:]`;
  * the dict trees of `build_edge` / `build_node` (`Tree`: `{'type': 'leaf', 'value': v}`, `{'type': 'fork', 'left': l, 'right': r}`,
    `{'label': s, 'node': t}`; a subscript with a key the dict does not have = KeyError = `none`).

It is validated against CPython and the running library on every change (hashmapsrc.py `validate`).
-/
import TonVerif.Basic
import TonVerif.PyInt
import TonVerif.Model.Cell
import TonVerif.Model.Builder
import TonVerif.Spec.Hashmap

namespace TonVerif.Py
open TonVerif TonVerif.Model

/-! ### Slice -/

/-- a `Slice` object: `type_`, the remaining bits, the remaining references -/
structure Slice where
  kind : Int
  bits : Bits
  refs : List Cell

/-- `cell.begin_parse()` -/
def beginParse : Cell → Slice
  | .mk kind bits refs => ⟨kind, bits, refs⟩

/-- `ser.load_bit()` : `bits[0]` then `del bits[0]` -/
def Slice.loadBit? (s : Slice) : Option (Bool × Slice) :=
  match s.bits with
  | [] => none
  | b :: r => some (b, { s with bits := r })

/-- `ser.load_bits(n)` : `bits[:n]` then `del bits[:n]` (underflow raises; `n = 0` deletes nothing) -/
def Slice.loadBits? (s : Slice) (n : Nat) : Option (Bits × Slice) :=
  if s.bits.length < n then none else some (s.bits.take n, { s with bits := s.bits.drop n })

/-- `ser.load_uint(l)` : `ba2int(bits[:l], signed=False)` (raises on an empty bitarray) then `del bits[:l]` -/
def Slice.loadUint? (s : Slice) (l : Nat) : Option (Nat × Slice) :=
  if l = 0 ∨ s.bits.length < l then none else some (natOfBits (s.bits.take l), { s with bits := s.bits.drop l })

/-- `cs.load_ref()` : `refs[ref_offset]`, `ref_offset += 1` -/
def Slice.loadRef? (s : Slice) : Option (Cell × Slice) :=
  match s.refs with
  | [] => none
  | c :: r => some (c, { s with refs := r })

/-! ### Builder -/

/-- a `Builder` object: bits and references stored so far -/
structure Bld where
  bits : Bits
  refs : List Cell

/-- `Builder()` -/
def Bld.empty : Bld := ⟨[], []⟩

/-- `TvmBitarray.extend(x)` / `.append(b)` : `check_overflow(len(x))` -/
def Bld.extend? (b : Bld) (x : Bits) : Option Bld :=
  if b.bits.length + x.length > 1023 then none else some { b with bits := b.bits ++ x }

/-- `to.store_bit_int(bit)` -/
def Bld.storeBit? (b : Bld) (bit : Bool) : Option Bld := b.extend? [bit]

/-- `to.store_uint(value, size)` : `int2ba(value, size, signed=False)` then `extend` -/
def Bld.storeUint? (b : Bld) (v : Nat) (l : Nat) : Option Bld := (BOp.int2baU (v : Int) l).bind b.extend?

/-- `to.store_ref(cell)` -/
def Bld.storeRef? (b : Bld) (c : Cell) : Option Bld :=
  if b.refs.length ≥ 4 then none else some { b with refs := b.refs ++ [c] }

/-- `b.end_cell()` (an ordinary cell) -/
def Bld.endCell (b : Bld) : Cell := .mk (-1) b.bits b.refs

/-! ### dict -/

/-- `d[k] = v` -/
def dset {K V : Type} [DecidableEq K] (k : K) (v : V) : List (K × V) → List (K × V)
  | [] => [(k, v)]
  | (k', v') :: rest => if k' = k then (k', v) :: rest else (k', v') :: dset k v rest

/-- `d[k]` : `none` = KeyError -/
def dget? {K V : Type} [DecidableEq K] (k : K) : List (K × V) → Option V
  | [] => none
  | (k', v') :: rest => if k' = k then some v' else dget? k rest

/-- `{int(i, 2): j for i, j in d.items()}` : `none` = ValueError (`int('', 2)`) -/
def intKeys? {V : Type} (d : List (Bits × V)) : Option (List (Nat × V)) :=
  if d.any (fun p => p.1.isEmpty) then none
  else some (d.foldl (fun acc p => dset (natOfBits p.1) p.2 acc) [])

/-! ### '0'/'1' strings -/

/-- `a <= b` on '0'/'1' strings -/
def strLe : Bits → Bits → Bool
  | [], _ => true
  | _ :: _, [] => false
  | a :: as, b :: bs => if a == b then strLe as bs else (!a && b)

/-- insertion into a sorted list (after equal elements: `sorted` is stable) -/
def insertSorted (x : Bits) : List Bits → List Bits
  | [] => [x]
  | y :: ys => if strLe y x then y :: insertSorted x ys else x :: y :: ys

/-- `sorted(xs)` for a list of '0'/'1' strings -/
def sortedStrs (xs : List Bits) : List Bits := xs.foldl (fun acc x => insertSorted x acc) []

/-- `s.find(c)` for a one-character `c` : first index, `-1` if absent -/
def findBit (s : Bits) (c : Bool) : Int :=
  match s.findIdx? (· == c) with
  | none => -1
  | some i => i

/-- `bin(k)[2:]` for `k ≥ 0` -/
def binDigits (k : Nat) : Bits := if k = 0 then [false] else natToBits (bitLength k) k

/-- `enumerate(xs)` -/
def enumerate {α : Type} (xs : List α) : List (Nat × α) := (List.range xs.length).zip xs

/-! ### the dict trees of build_edge / build_node -/

/-- the dicts `build_node` / `build_edge` return -/
inductive Tree (V : Type) where
  | leaf (value : V)                       -- {'type': 'leaf', 'value': value}
  | fork (left right : Tree V)             -- {'type': 'fork', 'left': left, 'right': right}
  | edge (label : Bits) (node : Tree V)    -- {'label': label, 'node': node}

/-- `t['type']` -/
def Tree.type? {V} : Tree V → Option String
  | .leaf _ => some "leaf"
  | .fork _ _ => some "fork"
  | .edge _ _ => none
def Tree.value? {V} : Tree V → Option V
  | .leaf v => some v
  | _ => none
def Tree.left? {V} : Tree V → Option (Tree V)
  | .fork l _ => some l
  | _ => none
def Tree.right? {V} : Tree V → Option (Tree V)
  | .fork _ r => some r
  | _ => none
def Tree.label? {V} : Tree V → Option Bits
  | .edge s _ => some s
  | _ => none
def Tree.node? {V} : Tree V → Option (Tree V)
  | .edge _ t => some t
  | _ => none

/-- the strings `detect_label_type` returns -/
def kindStr : Spec.Hashmap.LabelKind → String
  | .short => "short"
  | .long => "long"
  | .same => "same"

end TonVerif.Py
