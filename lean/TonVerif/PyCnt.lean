/-
A counting monad for INSTRUMENTED copies of regenerated recursive functions (harness/translate/hashmapcnt.py): the copy has the
same body as the regenerated function (Generated/HashmapSrc.lean) but runs in `Py.Cnt`, which carries

  * `calls` : the number of function entries so far (`Cnt.tick`, the first statement of every instrumented function), kept also
    when the run raises, and
  * `oof`   : whether the `| 0, … =>` fuel-exhaustion line of an instrumented function was ever reached (`Cnt.oof`) — so that
    "raised" (`none` with `oof = false`) and "the fuel did not suffice" can be told apart.

`Option` computations (the non-recursive callees, `Slice` methods) are lifted: they neither count nor touch the state.
Hand-written, core Lean only; that the instrumented copy computes the same VALUE as the regenerated function is PROVED
(Proofs/SrcHashmapCnt.lean `cnt_erase`), so only the placement of `tick` / `oof` (visible in the generated text) is by reading.
-/
namespace TonVerif.Py

structure CntState where
  calls : Nat := 0
  oof : Bool := false
  deriving Repr

/-- a computation that may raise (`none`), counting calls -/
def Cnt (α : Type) : Type := CntState → Option α × CntState

namespace Cnt

instance : Monad Cnt where
  pure a := fun s => (some a, s)
  bind x f := fun s => match x s with
    | (some a, s') => f a s'
    | (none, s') => (none, s')

instance : MonadLift Option Cnt := ⟨fun o s => (o, s)⟩

/-- one function entry -/
def tick : Cnt Unit := fun s => (some (), { s with calls := s.calls + 1 })

/-- the fuel-exhaustion line was reached -/
def oof {α : Type} : Cnt α := fun s => (none, { s with oof := true })

theorem pure_run {α : Type} (a : α) (s : CntState) : (pure a : Cnt α) s = (some a, s) := rfl
theorem bind_run {α β : Type} (x : Cnt α) (f : α → Cnt β) (s : CntState) :
    (x >>= f) s = match x s with | (some a, s') => f a s' | (none, s') => (none, s') := rfl
theorem lift_run {α : Type} (o : Option α) (s : CntState) : (monadLift o : Cnt α) s = (o, s) := rfl
theorem tick_run (s : CntState) : tick s = (some (), { s with calls := s.calls + 1 }) := rfl
theorem oof_run {α : Type} (s : CntState) : (oof : Cnt α) s = (none, { s with oof := true }) := rfl

end Cnt
end TonVerif.Py
