import TonVerif.Model.TlbRd
import TonVerif.Proofs.Codec
import TonVerif.Spec.Tlb.Block
namespace TonVerif.Tlb
open TonVerif

namespace Src
def ExtBlkRef (sp : Bool) (cell_slice : Frag) : Rd.R := do
  let (t1, cell_slice) ← Rd.loadUint 64 cell_slice
  let (t2, cell_slice) ← Rd.loadUint 32 cell_slice
  let (t3, cell_slice) ← Rd.loadBytes 32 cell_slice
  let (t4, cell_slice) ← Rd.loadBytes 32 cell_slice
  pure (Rd.obj "ExtBlkRef" [("end_lt", t1), ("seqno", t2), ("root_hash", t3), ("file_hash", t4)], cell_slice)

def KeyExtBlkRef (sp : Bool) (cell_slice : Frag) : Rd.R := do
  let (t1, cell_slice) ← Rd.loadBool cell_slice
  let (t2, cell_slice) ← ExtBlkRef sp cell_slice
  pure (Rd.obj "KeyExtBlkRef" [("key", t1), ("blk_ref", t2)], cell_slice)

def StorageInfo (sp : Bool) (cell_slice : Frag) : Rd.R := do
  let (t1, cell_slice) ← Rd.loadUint 32 cell_slice
  let (t2, cell_slice) ← Rd.loadBit cell_slice
  let (t3, cell_slice) ← (if Rd.truthy t2 then do
      let (t4, cell_slice) ← Rd.loadCoins cell_slice
      pure (t4, cell_slice)
    else pure (Val.unit, cell_slice))
  pure (Rd.obj "StorageInfo" [("last_paid", t1), ("due_payment", t3)], cell_slice)
end Src

def Val.get : Val → String → Val
  | .record fs, n => (fs.lookup n).getD .unit
  | _, _ => .unit

def Refines (r : Frag → Rd.R) (c : Codec) (w : Val → Val) : Prop :=
  ∀ s v s', c.dec s = some (v, s') → r s = some (w v, s')

def Kept (c : Codec) (s : Frag) (v : Val) (s' : Frag) : Prop := c.dec s = some (v, s')
theorem Refines.keep {r c w} (h : Refines r c w) (s : Frag) (v : Val) (s' : Frag) :
    (c.dec s = some (v, s')) ↔ (Kept c s v s' ∧ r s = some (w v, s')) :=
  ⟨fun hd => ⟨hd, h s v s' hd⟩, fun hd => hd.1⟩

theorem refines_uint (n : Nat) (hn : n ≠ 0) : Refines (Rd.loadUint n) (uint n) id := by
  intro s v s' h
  simp only [uint] at h
  simp only [Rd.loadUint, hn, Rd.takeBits, if_false]
  split at h
  · cases h
  · rename_i hl; simp only [hl, if_false, Option.map]; simpa using h

theorem uint_keep (n : Nat) (hn : n ≠ 0) (s : Frag) (v : Val) (s' : Frag) :
   ((uint n).dec s = some (v, s')) ↔ (Kept (uint n) s v s' ∧ Rd.loadUint n s = some (v, s')) :=
  (refines_uint n hn).keep s v s'

theorem refines_bytes (k : Nat) : Refines (Rd.loadBytes k) (bitsC (8 * k)) id := by
  intro s v s' h
  simp only [bitsC] at h
  simp only [Rd.loadBytes, Rd.loadBits, Rd.takeBits]
  split at h
  · cases h
  · rename_i hl; simp only [hl, if_false, Option.map]; simpa using h

theorem bitsC_keep (n : Nat) (s : Frag) (v : Val) (s' : Frag) :
   ((bitsC n).dec s = some (v, s')) ↔ (Kept (bitsC n) s v s' ∧ (n % 8 = 0 → Rd.loadBytes (n / 8) s = some (v, s'))) := by
  constructor
  · intro h
    refine ⟨h, fun h8 => ?_⟩
    have : 8 * (n / 8) = n := by omega
    have := refines_bytes (n / 8) s v s' (by rw [this]; exact h)
    simpa using this
  · intro h; exact h.1

theorem recd_dec (fs : List Field) (s : Frag) (v : Val) (s' : Frag) :
    (recd fs).dec s = some (v, s') ↔ ∃ vs, decFields fs [] s = some (vs, s') ∧ v = .record vs := by
  simp only [recd, Option.map_eq_some_iff]
  constructor
  · rintro ⟨⟨vs, s2⟩, h1, h2⟩; simp at h2; exact ⟨vs, by rw [h1]; simp [h2.2], h2.1.symm⟩
  · rintro ⟨vs, h1, h2⟩; exact ⟨(vs, s'), h1, by simp [h2]⟩

theorem decFields_nil (env : Env) (s : Frag) (vs) (s' : Frag) :
    decFields [] env s = some (vs, s') ↔ vs = [] ∧ s' = s := by
  simp only [decFields, Option.some.injEq, Prod.mk.injEq]; constructor <;> (rintro ⟨a, b⟩; exact ⟨a.symm, b.symm⟩)

theorem decFields_cons (n : String) (f : Env → Codec) (fs : List Field) (env : Env) (s : Frag) (vs) (s' : Frag) :
    decFields ((n, f) :: fs) env s = some (vs, s') ↔
      ∃ v s1, (f env).dec s = some (v, s1) ∧ ∃ vs', decFields fs ((n, v) :: env) s1 = some (vs', s') ∧ vs = (n, v) :: vs' := by
  simp only [decFields]
  constructor
  · intro h
    split at h
    · cases h
    · rename_i v s1 h1
      split at h
      · cases h
      · rename_i vs' s2 h2
        simp at h
        exact ⟨v, s1, h1, vs', by rw [h2, h.2], h.1.symm⟩
  · rintro ⟨v, s1, h1, vs', h2, h3⟩
    simp [h1, h2, h3]

theorem typ_dec (n : String) (c : Codec) : (typ n c).dec = c.dec := rfl

def view_ExtBlkRef (v : Val) : Val :=
  Rd.obj "ExtBlkRef" [("end_lt", v.get "end_lt"), ("seqno", v.get "seq_no"), ("root_hash", v.get "root_hash"), ("file_hash", v.get "file_hash")]

theorem refines_ExtBlkRef : Refines (Src.ExtBlkRef false) extBlkRef view_ExtBlkRef := by
  intro s v s'
  simp only [extBlkRef, bits256, fld, typ_dec, recd_dec, decFields_cons, decFields_nil, forall_exists_index, and_imp]
  intros
  subst_vars
  simp_all [uint_keep, bitsC_keep, Src.ExtBlkRef, view_ExtBlkRef, Val.get, List.lookup]


theorem refines_bool : Refines Rd.loadBool boolC id := by
  intro s v s' h
  simp only [boolC] at h
  simp only [Rd.loadBool]
  split at h
  · cases h
  · rename_i b r hb; simp only [hb]; simpa using h
theorem boolC_keep (s : Frag) (v : Val) (s' : Frag) :
   (boolC.dec s = some (v, s')) ↔ (Kept boolC s v s' ∧ Rd.loadBool s = some (v, s')) := refines_bool.keep s v s'

def view_KeyExtBlkRef (v : Val) : Val :=
  Rd.obj "KeyExtBlkRef" [("key", v.get "key"), ("blk_ref", view_ExtBlkRef (v.get "blk_ref"))]

theorem refines_KeyExtBlkRef : Refines (Src.KeyExtBlkRef false) keyExtBlkRef view_KeyExtBlkRef := by
  intro s v s'
  simp only [keyExtBlkRef, bits256, fld, typ_dec, recd_dec, decFields_cons, decFields_nil, forall_exists_index, and_imp]
  intros
  subst_vars
  simp_all [uint_keep, bitsC_keep, boolC_keep, refines_ExtBlkRef.keep, Src.KeyExtBlkRef, view_KeyExtBlkRef, Val.get, List.lookup]

theorem maybe_dec (c : Codec) (s : Frag) (v : Val) (s' : Frag) :
    (maybe c).dec s = some (v, s') ↔
      (∃ r, s.bits = false :: r ∧ v = .unit ∧ s' = ⟨r, s.refs⟩) ∨ (∃ r, s.bits = true :: r ∧ c.dec ⟨r, s.refs⟩ = some (v, s')) := by
  simp only [maybe]
  constructor
  · intro h
    split at h
    · cases h
    · rename_i r hb; simp at h; exact Or.inl ⟨r, hb, h.1.symm, h.2.symm⟩
    · rename_i r hb; exact Or.inr ⟨r, hb, h⟩
  · rintro (⟨r, hb, hv, hs⟩ | ⟨r, hb, h⟩)
    · simp [hb, hv, hs]
    · simp [hb, h]

theorem refines_grams : Refines Rd.loadCoins grams id := by
  intro s v s' h
  simp only [grams, varUInt] at h
  simp only [Rd.loadCoins, Rd.loadVarUint, Rd.loadUint, Rd.takeBits]
  have h4 : bitLen (16 - 1) = 4 := by decide
  rw [h4] at h
  split at h
  · cases h
  · rename_i hl
    split at h
    · cases h
    · rename_i hc
      simp only [hl, if_false, Option.map]
      simp at h hc
      by_cases hz : natOfBits (List.take 4 s.bits) = 0
      · simp [hz] at h ⊢; simp [← h.1, ← h.2]
      · have : ¬ ((natOfBits (List.take 4 s.bits) : Int) = 0) := by omega
        simp [this, hz, Nat.mul_comm]
        have hl2 : ¬ (List.length s.bits - 4 < 8 * natOfBits (List.take 4 s.bits)) := by omega
        simp [hl2, ← h.1, ← h.2]
theorem grams_keep (s : Frag) (v : Val) (s' : Frag) :
   (grams.dec s = some (v, s')) ↔ (Kept grams s v s' ∧ Rd.loadCoins s = some (v, s')) := refines_grams.keep s v s'

def storageInfo' : Codec := typ "storageInfo" (
  recd [fld "last_paid" (uint 32), fld "due_payment" (maybe grams)])
def view_StorageInfo (v : Val) : Val :=
  Rd.obj "StorageInfo" [("last_paid", v.get "last_paid"), ("due_payment", v.get "due_payment")]

theorem refines_StorageInfo : Refines (Src.StorageInfo false) storageInfo' view_StorageInfo := by
  intro s v s'
  simp only [storageInfo', bits256, fld, typ_dec, recd_dec, decFields_cons, decFields_nil, maybe_dec, forall_exists_index, and_imp, or_imp]
  and_intros <;> intros <;> subst_vars <;>
  simp_all [uint_keep, bitsC_keep, boolC_keep, grams_keep, Src.StorageInfo, view_StorageInfo, Val.get, List.lookup, Rd.loadBit, Rd.truthy]

end TonVerif.Tlb
